"""User-defined dtype categories importable by name (needed for pickling by reference)."""
import re

import jaxtyping as jt


class UserFloatish(jt.AbstractDtype):
    dtypes = ["float32", "bfloat16", "weird"]


class UserPattern(jt.AbstractDtype):
    dtypes = [re.compile(r"u?int(8|32)$"), "bool"]


class UserBroad(jt.AbstractDtype):
    """a broader pattern category (used as the outer part of nested annotations)"""
    dtypes = [re.compile(r"u?int(8|32)$"), "bool", "float32", re.compile(r"float(16|64)$")]
