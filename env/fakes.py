"""Array stand-ins.  jaxtyping only ever looks at `.shape` and `.dtype` of an array."""


class FakeArr:
    def __init__(self, shape, dtype="float32"):
        self.shape = tuple(shape)
        self.dtype = dtype

    def __repr__(self):
        return f"FakeArr({self.shape}, {self.dtype})"

    # numpy and jax arrays are unhashable; replays run on numpy arrays, so the stand-in must not
    # be usable as a dict key either (a cache keyed by leaf value behaves differently otherwise)
    __hash__ = None


class FakeArr2:
    """A second, unrelated array class."""

    def __init__(self, shape, dtype="float32"):
        self.shape = tuple(shape)
        self.dtype = dtype

    def __repr__(self):
        return f"FakeArr2({self.shape}, {self.dtype})"

    __hash__ = None


class SubArr(FakeArr):
    pass


class NoShape:
    dtype = "float32"


class NoDtype:
    shape = ()


_ALLOWED = {"shape", "dtype", "__class__", "__dict__", "log", "_shape", "_dtype", "__repr__",
            "__init__", "__getattribute__", "__reduce_ex__", "__module__", "__doc__"}


class MonArr:
    """Monitored array: records every attribute access / conversion other than shape/dtype.

    Stands in for a JAX tracer in C17: a tracer has no concrete value, so anything beyond
    shape/dtype/class inspection would be a value dependence (or a concretisation error).
    """

    log = None  # class-level list, set by harness: value-dependent operations
    probes = []  # attribute probes (not judged)

    def __init__(self, shape, dtype="float32"):
        object.__setattr__(self, "_shape", tuple(shape))
        object.__setattr__(self, "_dtype", dtype)

    def __getattribute__(self, name):
        if name == "shape":
            return object.__getattribute__(self, "_shape")
        if name == "dtype":
            return object.__getattribute__(self, "_dtype")
        if name in ("__class__", "__dict__", "_shape", "_dtype", "ndim", "item", "tolist", "any", "all", "max", "min",
                    "sum", "mean", "astype", "tobytes", "nonzero", "argmax", "argmin", "copy", "flatten", "ravel",
                    "reshape", "squeeze", "block_until_ready"):
            return object.__getattribute__(self, name)
        # an attribute *probe* is not a value access (a tracer answers those too): kept apart
        MonArr.probes.append(name)
        raise AttributeError(name)

    def _rec(name):  # noqa
        def f(self, *a, **k):
            MonArr.log.append(name)
            raise TypeError(f"MonArr: value-dependent operation {name}")
        f.__name__ = name
        return f

    for _n in ("__bool__", "__len__", "__iter__", "__getitem__", "__index__", "__int__",
               "__float__", "__complex__", "__array__", "__lt__", "__le__", "__gt__", "__ge__",
               "__add__", "__radd__", "__mul__", "__rmul__", "__sub__", "__neg__",
               "__contains__", "__abs__", "__rsub__", "__truediv__", "__mod__", "__pow__", "__and__", "__or__",
               "__invert__", "__hash_value__"):
        locals()[_n] = _rec(_n)
    del _n, _rec

    # methods a tracer *has* (so hasattr() is true) but which need / expose element values
    def _valmethod(name):  # noqa
        def f(self, *a, **k):
            MonArr.log.append(name + "()")
            raise TypeError(f"MonArr: value-dependent operation {name}()")
        f.__name__ = name
        return f

    for _n in ("item", "tolist", "any", "all", "max", "min", "sum", "mean", "astype", "tobytes", "nonzero",
               "argmax", "argmin", "copy", "flatten", "ravel", "reshape", "squeeze", "block_until_ready"):
        locals()[_n] = _valmethod(_n)
    del _n, _valmethod

    @property
    def ndim(self):
        return len(object.__getattribute__(self, "_shape"))

    def __eq__(self, o):
        if o is self:
            return True
        MonArr.log.append("__eq__")
        raise TypeError("MonArr: value-dependent operation __eq__")

    def __ne__(self, o):
        MonArr.log.append("__ne__")
        raise TypeError("MonArr: value-dependent operation __ne__")

    __hash__ = object.__hash__

    def __repr__(self):
        return "MonArr(...)"
