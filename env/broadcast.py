"""Pure-Python model of numpy.broadcast_shapes that works on SymInt sizes.

Contract (NumPy broadcasting rule): shapes are aligned at the trailing end; two sizes are
compatible when equal or when one of them is 1; the result takes the non-1 size;
incompatible sizes raise ValueError.  Validated against the real numpy.broadcast_shapes on
every run (`selftest`), and every replay uses the real NumPy function.
"""
import itertools


def broadcast_shapes(*shapes):
    n = max((len(s) for s in shapes), default=0)
    out = []
    for k in range(1, n + 1):
        cur = 1
        for s in shapes:
            if k <= len(s):
                d = s[-k]
                if d == 1:
                    continue
                if cur == 1:
                    cur = d
                elif cur != d:
                    raise ValueError("shape mismatch: objects cannot be broadcast to a single shape.")
        out.append(cur)
    return tuple(reversed(out))


class NpProxy:
    """Forwards to numpy except for broadcast_shapes."""

    calls = 0

    def __init__(self, real):
        object.__setattr__(self, "_real", real)

    def __getattr__(self, name):
        if name == "broadcast_shapes":
            NpProxy.calls += 1
            return broadcast_shapes
        return getattr(object.__getattribute__(self, "_real"), name)


_REAL = [None]


def _dispatch(*shapes):
    """numpy.broadcast_shapes replacement: the model when a proxy size is involved, else real."""
    from symx.core import SymInt
    if any(isinstance(d, SymInt) for s in shapes if isinstance(s, (tuple, list)) for d in s):
        NpProxy.calls += 1
        return broadcast_shapes(*shapes)
    return _REAL[0](*shapes)


def install():
    """Make jaxtyping's broadcast computation proxy-friendly.

    Primary route: the `np` global of jaxtyping._array_types is replaced by a proxy (only that
    module sees it).  Fallback (should the module obtain the function differently, e.g. through
    another alias): numpy.broadcast_shapes itself dispatches to the model *only* when a symbolic
    size is involved and to the real function otherwise."""
    import numpy
    import jaxtyping._array_types as at
    if _REAL[0] is None:
        _REAL[0] = numpy.broadcast_shapes
        numpy.broadcast_shapes = _dispatch
    if hasattr(at, "np") and not isinstance(at.np, NpProxy):
        at.np = NpProxy(numpy)
    # the function may also have been imported by name (`from numpy import broadcast_shapes as x`)
    for name, value in list(vars(at).items()):
        if value is _REAL[0]:
            setattr(at, name, _dispatch)


def uninstall():
    import numpy
    import jaxtyping._array_types as at
    if hasattr(at, "np"):
        at.np = numpy


def selftest(maxrank=3, sizes=(0, 1, 2, 3)):
    import numpy
    n = 0
    shapes = [()]
    for r in range(1, maxrank + 1):
        shapes += list(itertools.product(sizes, repeat=r))
    for a in shapes:
        for b in shapes:
            try:
                want = (_REAL[0] or numpy.broadcast_shapes)(a, b)
            except ValueError:
                want = "VE"
            try:
                got = broadcast_shapes(a, b)
            except ValueError:
                got = "VE"
            if want != got:
                raise AssertionError(f"broadcast stub differs from numpy on {a} {b}: {got} vs {want}")
            n += 1
    return n
