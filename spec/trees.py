"""Reference semantics of PyTree[L(, struct)] checks over array leaves (sequential over leaves).

The tree *skeleton* is concrete (a selector); leaf shapes are symbolic.  `V.decide` forks the
harness path where the path condition does not determine a leaf verdict.
"""
import z3

from . import dims as D


def leaves_step(V, leaf_dims, leaf_shapes, struct, B, args=None):
    """Check leaves in order against parsed `leaf_dims` sharing B.
    Returns ('ACC'|'REJ'|'ERR', B_after) -- strict sequential semantics; B_after == B unless ACC."""
    cur = B
    for i, sh in enumerate(leaf_shapes):
        tp = (struct, i) if struct is not None else None
        st = D.step(leaf_dims, sh, cur, args, tp=tp)
        if V.decide(st["strict"] == D.ACC):
            cur = st["B"]
            continue
        if V.decide(st["strict"] == D.ERR):
            return "ERR", B
        return "REJ", B
    return "ACC", cur
