"""Reference semantics of PyTree[L(, struct)] checks (docs/api/pytree.md + C08/C16).

The tree *skeleton* is concrete (a selector); array-leaf shapes are symbolic.  `V.decide`
forks the harness path where the path condition does not determine a leaf verdict.

Leaf-type descriptors ("specs"):
  ("arr", dims)            Float[ARR, dims]
  ("py", "int"|"str")      a plain Python type
  ("tup", [spec, ...])     tuple[spec, ...]  (fixed length)
  ("union", [spec, ...])   typing.Union[...], members tried in declaration order
  ("union604", [spec, ...]) the same written `X | Y`
  ("any",)                 typing.Any
  ("tree", spec)           structure-less PyTree[spec] nested in the leaf type
"""
import collections

from . import dims as D

_PY = {"int": int, "str": str, "float": float}

Point = collections.namedtuple("Point", ["x", "y"])


class Node:
    """A custom registered PyTree node (registered by the check's worker setup)."""

    def __init__(self, *children):
        self.children = tuple(children)

    def __repr__(self):
        return f"Node{self.children!r}"


class BadNode:
    """A registered node whose flatten function raises: JAX cannot flatten a tree holding it."""

    def __init__(self, *children):
        self.children = tuple(children)


def _bad_flatten(n):
    raise RuntimeError("BadNode cannot be flattened")


def register_node():
    import jax.tree_util as jtu
    try:
        jtu.register_pytree_node(Node, lambda n: (n.children, None), lambda aux, ch: Node(*ch))
    except ValueError:
        pass
    try:
        jtu.register_pytree_node(BadNode, _bad_flatten, lambda aux, ch: BadNode(*ch))
    except ValueError:
        pass


def to_ann(spec, ARR):
    """Real annotation object for a spec."""
    import typing
    import jaxtyping as jt
    k = spec[0]
    if k == "arr":
        return jt.Float[ARR, spec[1]]
    if k == "py":
        return _PY[spec[1]]
    if k == "tup":
        return tuple[tuple(to_ann(s, ARR) for s in spec[1])]
    if k == "union":
        return typing.Union[tuple(to_ann(s, ARR) for s in spec[1])]
    if k == "union604":
        # PEP 604 spelling `X | Y` (types.UnionType)
        import functools
        import operator
        return functools.reduce(operator.or_, [to_ann(s, ARR) for s in spec[1]])
    if k == "any":
        return typing.Any
    if k == "tree":
        return jt.PyTree[to_ann(spec[1], ARR)]
    raise KeyError(k)


def is_arr(x):
    return hasattr(x, "shape") and hasattr(x, "dtype") and not isinstance(x, (int, str))


def children(x):
    """Children of a container node, or None when x is not a container (jax semantics)."""
    if x is None:
        return []
    if isinstance(x, Node):
        return list(x.children)
    if isinstance(x, dict):
        return [x[k] for k in sorted(x)]
    if isinstance(x, (tuple, list)):
        return list(x)
    return None


def flat_match(spec, x, ARR):
    """Does x match the leaf type when only types (not shapes/dtypes/bindings) are looked at?"""
    k = spec[0]
    if k == "arr":
        return isinstance(x, ARR)
    if k == "py":
        t = _PY[spec[1]]
        if t is float:
            return isinstance(x, (int, float))  # PEP 484 numeric tower, as the typechecker applies it
        return isinstance(x, t)
    if k == "tup":
        return isinstance(x, tuple) and len(x) == len(spec[1]) and all(
            flat_match(s, c, ARR) for s, c in zip(spec[1], x))
    if k in ("union", "union604"):
        return any(flat_match(s, x, ARR) for s in spec[1])
    if k == "any":
        return False  # PyTree[Any]: nothing is a leaf during discovery, everything matches after
    if k == "tree":
        return all(flat_match(spec[1], l, ARR) for l in discover(spec[1], x, ARR))
    raise KeyError(k)


def discover(spec, x, ARR):
    """Leaves of x for leaf type `spec`: a subtree matching the leaf type is a leaf; None and
    empty containers contribute none; anything that is not a container is a leaf."""
    if flat_match(spec, x, ARR):
        return [x]
    ch = children(x)
    if ch is None:
        return [x]
    out = []
    for c in ch:
        out += discover(spec, c, ARR)
    return out


def structure_sig(spec, x, ARR):
    """Reference tree structure (what jax's PyTreeDef distinguishes) for leaf type `spec`."""
    if flat_match(spec, x, ARR):
        return "*"
    if x is None:
        return ("None",)
    if isinstance(x, Node):
        return ("Node",) + tuple(structure_sig(spec, c, ARR) for c in x.children)
    if isinstance(x, dict):
        return ("dict", tuple(sorted(x))) + tuple(structure_sig(spec, x[k], ARR) for k in sorted(x))
    if isinstance(x, tuple) and hasattr(x, "_fields"):
        return ("namedtuple", type(x).__name__) + tuple(structure_sig(spec, c, ARR) for c in x)
    if isinstance(x, (tuple, list)):
        return (type(x).__name__,) + tuple(structure_sig(spec, c, ARR) for c in x)
    return "*"


def full_match(V, spec, x, B, ARR, args=None, tp=None):
    """Sequential semantics of checking one value against the leaf type from state B.
    -> ('ACC'|'REJ'|'ERR', B_after)"""
    k = spec[0]
    if k == "arr":
        if not isinstance(x, ARR):
            return "REJ", B
        sh = [s if not hasattr(s, "e") else s.e for s in x.shape]
        st = D.step(D.parse_ref(spec[1]), sh, B, args, tp=tp)
        if V.decide(st["strict"] == D.ACC):
            return "ACC", st["B"]
        if V.decide(st["strict"] == D.ERR):
            return "ERR", B
        return "REJ", B
    if k == "py":
        return ("ACC" if flat_match(spec, x, ARR) else "REJ"), B
    if k == "any":
        return "ACC", B
    if k == "tup":
        if not (isinstance(x, tuple) and len(x) == len(spec[1])):
            return "REJ", B
        cur = B
        for s, c in zip(spec[1], x):
            r, cur = full_match(V, s, c, cur, ARR, args, tp)
            if r != "ACC":
                # bindings made by earlier elements of a failing tuple are undone by the
                # enclosing PyTree / union rollback
                return r, B
        return "ACC", cur
    if k in ("union", "union604"):
        for s in spec[1]:
            r, B2 = full_match(V, s, x, B, ARR, args, tp)
            if r == "ACC":
                return "ACC", B2
            if r == "ERR":
                return "ERR", B
        return "REJ", B
    if k == "tree":
        return tree_check(V, spec[1], x, None, B, ARR, args, tp_outer=tp)
    raise KeyError(k)


def tree_check(V, spec, tree, struct, B, ARR, args=None, tp_outer=None):
    """isinstance(tree, PyTree[spec(, struct)]) from state B.  struct: None or an identifier
    (structure binding itself is handled by the caller / C09)."""
    if tree is None:
        return "ACC", B
    cur = B
    for i, leaf in enumerate(discover(spec, tree, ARR)):
        tp = (struct, i) if struct is not None else tp_outer
        r, cur = full_match(V, spec, leaf, cur, ARR, args, tp)
        if r != "ACC":
            return r, B
    return "ACC", cur


def leaves_step(V, leaf_dims, leaf_shapes, struct, B, args=None):
    """Array leaves given directly as shapes (used by C12).  -> (verdict, B_after)"""
    cur = B
    for i, sh in enumerate(leaf_shapes):
        tp = (struct, i) if struct is not None else None
        st = D.step(leaf_dims, sh, cur, args, tp=tp)
        if V.decide(st["strict"] == D.ACC):
            cur = st["B"]
            continue
        if V.decide(st["strict"] == D.ERR):
            return "ERR", B
        return "REJ", B
    return "ACC", cur
