"""Comparison of implementation bindings (parsed from print_bindings()) with oracle state."""
import re

import z3

from symx import core

_TP = re.compile(r"^\(Leaf (\d+) in structure (.*)\) (\w+)$")


def norm_name(n):
    """Printed binding name -> oracle key.  '?' axes print as '(Leaf i in structure S) name'."""
    m = _TP.match(n)
    if m:
        return ((m.group(2), int(m.group(1))), m.group(3))
    return n


def _lift(x):
    return core.lift(x)


def bindings_conditions(impl, B):
    """List of (description, z3 Bool / bool) that must all hold for impl == B."""
    conds = []
    isingle = {norm_name(k): v for k, v in impl["single"].items()}
    ivar = {norm_name(k): v for k, v in impl["variadic"].items()}
    for n in sorted(set(isingle) | set(B.single), key=repr):
        p, v = B.single.get(n, (z3.BoolVal(False), z3.IntVal(0)))
        if n in isingle:
            conds.append((f"axis {n!r} is bound by the implementation but not by the reference", p))
            conds.append((f"axis {n!r} value differs", z3.Implies(p, v == _lift(isingle[n]))))
        else:
            conds.append((f"axis {n!r} is bound by the reference but not by the implementation", z3.Not(p)))
    for n in sorted(set(ivar) | set(B.variadic), key=repr):
        if n not in ivar:
            conds.append((f"variadic {n!r} missing in implementation", False))
        elif n not in B.variadic:
            conds.append((f"variadic {n!r} bound by implementation only", False))
        else:
            _, rs = B.variadic[n]
            is_ = ivar[n]
            if len(rs) != len(is_):
                conds.append((f"variadic {n!r} rank differs: impl {len(is_)} ref {len(rs)}", False))
            else:
                for k, (a, b) in enumerate(zip(is_, rs)):
                    conds.append((f"variadic {n!r}[{k}] differs", _lift(a) == (z3.IntVal(b) if isinstance(b, int) else b)))
    return conds


def check_bindings(V, label, impl, B, **info):
    conds = bindings_conditions(impl, B)
    zs = []
    for d, c in conds:
        if isinstance(c, bool):
            if not c:
                return V.check(label, False, why=d, **info)
        else:
            zs.append(c)
    if not zs:
        return V.check(label, True, **info)
    ok = V.check(label, z3.And(*zs) if len(zs) > 1 else zs[0], **info)
    return ok


def state_equal_conditions(impl_a, impl_b):
    """Two implementation snapshots must be identical (names and values)."""
    conds = []
    for sec in ("single", "variadic"):
        a, b = impl_a[sec], impl_b[sec]
        if set(a) != set(b):
            conds.append((f"{sec} names differ: {sorted(a)} vs {sorted(b)}", False))
            continue
        for n in a:
            if sec == "single":
                conds.append((f"{n} changed", _lift(a[n]) == _lift(b[n])))
            else:
                if len(a[n]) != len(b[n]):
                    conds.append((f"{n} rank changed", False))
                else:
                    for x, y in zip(a[n], b[n]):
                        conds.append((f"{n} changed", _lift(x) == _lift(y)))
    if impl_a["pytree"] != impl_b["pytree"]:
        conds.append((f"structure bindings differ: {impl_a['pytree']} vs {impl_b['pytree']}", False))
    return conds


def check_unchanged(V, label, before, after, **info):
    conds = state_equal_conditions(before, after)
    zs = []
    for d, c in conds:
        if isinstance(c, bool):
            if not c:
                return V.check(label, False, why=d, **info)
        else:
            zs.append(c)
    if not zs:
        return V.check(label, True, **info)
    return V.check(label, z3.And(*zs) if len(zs) > 1 else zs[0], **info)
