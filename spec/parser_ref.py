"""Reference grammar of one dim-string token / a whole spec (docs/api/array.md + C14).

Works on real `str` and on symx SymStr (only SymStr-safe operations are used: ==, indexing,
slicing, len, count, split, endswith, `in` with the SymStr on the right-hand side, isidentifier,
int()).  Returns for a spec:
   ("VE", reason)            a documented illegal form -> ValueError expected
   ("OK", [dim dicts])       accepted with this meaning (same dict format as spec.dims.parse_ref)
   ("UNSPEC", reason)        outside the documented grammar: only totality is checked
"""

MODS = "#*_?"


class _VE(Exception):
    pass


class _Unspec(Exception):
    pass


def _is_mod(c):
    for m in MODS:
        if c == m:
            return m
    return None


def _has_comparison(tok):
    """'==' with something on both sides"""
    for i in range(1, len(tok) - 2):
        if tok[i] == "=" and tok[i + 1] == "=":
            return True
    return False


def ref_token(tok):
    if "..." in tok:
        if tok == "...":
            return dict(kind="anonvar", bc=False, tp=False)
        raise _VE("'...' must be used on its own")
    if "," in tok and "(" not in tok:
        raise _VE("comma-separated axes")
    if tok.endswith("#"):
        raise _VE("trailing #")
    mods = set()
    while True:
        if len(tok) == 0:
            break
        m = _is_mod(tok[0])
        if m is not None:
            if m in mods:
                raise _VE(f"modifier {m} repeated")
            mods.add(m)
            tok = tok[1:]
            continue
        neq = tok.count("=")
        if neq == 1:
            doc, rest = tok.split("=")
            if not doc.isidentifier():
                raise _Unspec("'name=' prefix whose name is not an identifier")
            tok = rest
            continue
        if neq != 0:
            if neq == 2 and _has_comparison(tok):
                # 'a==b': an equality comparison inside a symbolic expression, not a 'name=' prefix
                break
            raise _Unspec("more than one '='")
        break
    bc, var, anon, tp = "#" in mods, "*" in mods, "_" in mods, "?" in mods
    if len(tok) == 0 or tok.isidentifier():
        if anon:
            if bc:
                raise _VE("anonymous and broadcastable")
            return dict(kind="anonvar" if var else "anon", bc=False, tp=False)
        if len(tok) == 0:
            raise _Unspec("empty name without '_'")
        return dict(kind="namedvar" if var else "named", name=tok, bc=bc, tp=tp)
    try:
        size = int(tok)
    except ValueError:
        size = None
    if size is not None:
        if var or anon or tp:
            raise _VE("modifier that cannot apply to a fixed axis")
        return dict(kind="fixed", size=size, bc=bc, tp=False)
    if var or anon or tp:
        raise _VE("modifier that cannot apply to a symbolic axis")
    return dict(kind="expr", expr=tok, bc=bc, tp=False)


def ref_spec(spec):
    """Classify a whole specification (a str / SymStr; anything else is a documented VE)."""
    if not isinstance(spec, str):
        return ("VE", "non-string specification")
    dims = []
    nvar = 0
    unspec = None
    try:
        for tok in spec.split():
            try:
                d = ref_token(tok)
            except _Unspec as e:
                # keep scanning: a later token may still be a documented illegal form, but once
                # one token is outside the grammar we no longer claim a meaning
                unspec = str(e)
                continue
            if d["kind"] in ("anonvar", "namedvar"):
                nvar += 1
                if nvar > 1 and unspec is None:
                    raise _VE("two multi-axis specifiers")
            dims.append(d)
    except _VE as e:
        if unspec is not None:
            return ("UNSPEC", unspec)
        return ("VE", str(e))
    if unspec is not None:
        return ("UNSPEC", unspec)
    return ("OK", dims)
