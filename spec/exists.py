"""Declarative semantics: does ONE assignment sigma of sizes to names (and shapes to *names)
make every array match its annotation?  (C02 / C13 / C07 / C17.)

sigma = Sigma(single: name -> z3 Int, variadic: name -> (rank z3 Int or int, [elements]))
match(dims, shape, sigma) -> z3 Bool
"""
import z3

from . import dims as D


class Sigma:
    def __init__(self, single, variadic):
        self.single = single
        self.variadic = variadic


def fresh_sigma(names, vnames, maxrank, tag="sg"):
    single = {n: z3.Int(f"{tag}_{n}") for n in names}
    variadic = {}
    for v in vnames:
        variadic[v] = (z3.Int(f"{tag}_rank_{v}"), [z3.Int(f"{tag}_{v}_{i}") for i in range(maxrank)])
    return Sigma(single, variadic)


def sigma_constraints(sg, maxrank):
    cs = []
    for v, (r, els) in sg.variadic.items():
        if not isinstance(r, int):
            cs += [r >= 0, r <= maxrank]
    return cs


def sigma_from_bindings(B):
    """Witness assignment from an oracle binding state (unbound names -> 1)."""
    single = {}
    for k, (p, v) in B.single.items():
        single[k] = z3.If(p, v, 1)
    variadic = {k: (len(s), list(s)) for k, (_, s) in B.variadic.items()}
    return Sigma(single, variadic)


def _env(sg):
    return {k: (z3.BoolVal(True), v) for k, v in sg.single.items()}


def match(dims, shape, sg, args=None):
    args = args or {}
    shape = [z3.IntVal(s) if isinstance(s, int) else s for s in shape]
    rank = len(shape)
    ivar = [i for i, d in enumerate(dims) if d["kind"] in ("anonvar", "namedvar")]
    if not ivar:
        if rank != len(dims):
            return z3.BoolVal(False)
        pairs = list(zip(dims, shape))
        vd = None
    else:
        i = ivar[0]
        if rank < len(dims) - 1:
            return z3.BoolVal(False)
        nsuf = len(dims) - i - 1
        pairs = list(zip(dims[:i], shape[:i])) + list(zip(dims[i + 1:], shape[rank - nsuf:]))
        vd = (dims[i], shape[i:rank - nsuf])
    conds = []
    env = _env(sg)
    for d, s in pairs:
        if d["kind"] == "anon":
            continue
        skip = z3.And(z3.BoolVal(bool(d["bc"])), s == 1)
        if d["kind"] == "fixed":
            conds.append(z3.Or(skip, s == d["size"]))
        elif d["kind"] == "named":
            v = sg.single.get(d["name"])
            if v is None:
                conds.append(skip)  # name without a value in sigma: only '#'/1 can match
            else:
                conds.append(z3.Or(skip, s == v))
        elif d["kind"] == "expr":
            allp, val = D.eval_expr(d["expr"], env, args)
            conds.append(z3.Or(skip, z3.And(allp, s == val)))
    if vd is not None and vd[0]["kind"] == "namedvar":
        d, mid = vd
        if d["name"] not in sg.variadic:
            conds.append(z3.BoolVal(False))
        else:
            r, els = sg.variadic[d["name"]]
            m = len(mid)
            alts = []
            ranks = [r] if isinstance(r, int) else range(len(els) + 1)
            for rr in ranks:
                rc = z3.BoolVal(True) if isinstance(r, int) else (r == rr)
                tgt = els[:rr]
                if d["bc"]:
                    if m > rr:
                        continue
                    al = [z3.Or(a == b, a == 1) for a, b in zip(mid, tgt[rr - m:])]
                else:
                    if m != rr:
                        continue
                    al = [a == b for a, b in zip(mid, tgt)]
                alts.append(z3.And(rc, *al) if al else rc)
            conds.append(z3.Or(*alts) if alts else z3.BoolVal(False))
    return z3.And(*conds) if conds else z3.BoolVal(True)


def names_of(dim_lists):
    names, vnames = set(), set()
    for dims in dim_lists:
        for d in dims:
            if d["kind"] == "named":
                names.add(d["name"])
            elif d["kind"] == "namedvar":
                vnames.add(d["name"])
            elif d["kind"] == "expr":
                names.update(D.expr_names(d["expr"]))
    return sorted(names), sorted(vnames)
