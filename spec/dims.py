"""Reference semantics of the dim-string language, written as z3 formulas.

Independent of the implementation: taken from docs/api/array.md and the statements of
properties C01/C02/C04.  See DESIGN.md Appendix A.

  parse_ref(dim_str)            reference tokeniser for *well-formed* dim strings
  step(dims, shape, B, ...)     sequential semantics of one check from binding state B,
                                as ONE merged formula (no path forking)
  Bindings                      the state B = (single, variadic)
"""
import ast
import re

import z3


def _simp(e):
    # deterministic simplification (see symx.core._simp)
    return z3.simplify(e, sort_disjunctions=False)


ACC, REJ, ERR = 0, 1, 2
VERDICT = {ACC: "ACC", REJ: "REJ", ERR: "ERR"}

_MOD = re.compile(r"^(?:[#*_?]|[A-Za-z][A-Za-z0-9_]*=|_[A-Za-z0-9_]+=)")


def parse_ref(dim_str):
    """Tokenise a well-formed dim string into dicts.

    kinds: anon, anonvar, fixed(size), named(name), namedvar(name), expr(expr)
    flags: bc ('#'), tp ('?')
    """
    dims = []
    for tok in dim_str.split():
        if tok == "...":
            dims.append(dict(kind="anonvar", bc=False, tp=False))
            continue
        bc = var = anon = tp = False
        while True:
            if tok[:1] == "#":
                bc = True
                tok = tok[1:]
            elif tok[:1] == "*":
                var = True
                tok = tok[1:]
            elif tok[:1] == "_":
                anon = True
                tok = tok[1:]
            elif tok[:1] == "?":
                tp = True
                tok = tok[1:]
            elif tok.count("=") == 1:
                tok = tok.split("=")[1]
            else:
                break
        if anon:
            dims.append(dict(kind="anonvar" if var else "anon", bc=False, tp=False))
        elif tok.isidentifier():
            dims.append(dict(kind="namedvar" if var else "named", name=tok, bc=bc, tp=tp))
        else:
            try:
                dims.append(dict(kind="fixed", size=int(tok), bc=bc, tp=False))
            except ValueError:
                dims.append(dict(kind="expr", expr=tok, bc=bc, tp=False))
    return dims


def _And(xs):
    xs = list(xs)
    if not xs:
        return z3.BoolVal(True)
    return z3.And(*xs)


def _Or(xs):
    xs = list(xs)
    if not xs:
        return z3.BoolVal(False)
    return z3.Or(*xs)


def pyfloordiv(a, b):
    return z3.If(b > 0, a / b, (-a) / (-b))


def eval_expr(expr, env, args):
    """z3 value of a symbolic-axis expression.

    env : name -> (present: z3 Bool, value: z3 Int)    axis sizes bound so far
    args: name -> z3 Int / int                         the current call's arguments ({n})
    Returns (all names present: z3 Bool, value: z3 Int).
    """
    src = re.sub(r"\{([A-Za-z_][A-Za-z0-9_]*)\}", r"__arg_\1", expr)
    tree = ast.parse(src, mode="eval").body
    present = []

    def go(n):
        if isinstance(n, ast.Constant) and isinstance(n.value, int):
            return z3.IntVal(n.value)
        if isinstance(n, ast.Name):
            if n.id.startswith("__arg_"):
                v = args[n.id[6:]]
                return z3.IntVal(v) if isinstance(v, int) else v
            p, v = env.get(n.id, (z3.BoolVal(False), z3.IntVal(0)))
            present.append(p)
            return v
        if isinstance(n, ast.UnaryOp) and isinstance(n.op, ast.USub):
            return -go(n.operand)
        if isinstance(n, ast.BinOp):
            a, b = go(n.left), go(n.right)
            if isinstance(n.op, ast.Add):
                return a + b
            if isinstance(n.op, ast.Sub):
                return a - b
            if isinstance(n.op, ast.Mult):
                return a * b
            if isinstance(n.op, ast.FloorDiv):
                return pyfloordiv(a, b)
            if isinstance(n.op, ast.Mod):
                return a - b * pyfloordiv(a, b)
        if isinstance(n, ast.Call) and isinstance(n.func, ast.Name) and n.func.id in ("min", "max") \
                and len(n.args) == 2:
            a, b = go(n.args[0]), go(n.args[1])
            return z3.If(a <= b, a, b) if n.func.id == "min" else z3.If(a >= b, a, b)
        raise NotImplementedError(ast.dump(n))

    v = go(tree)
    return _And(present), v


def expr_names(expr):
    src = re.sub(r"\{([A-Za-z_][A-Za-z0-9_]*)\}", r"0", expr)
    return sorted({n.id for n in ast.walk(ast.parse(src, mode="eval")) if isinstance(n, ast.Name)
                   and n.id not in ("min", "max")})


class Bindings:
    """B = (single, variadic).  single: key -> (present z3 Bool, value z3 Int);
    variadic: key -> (bc: bool, shape: list of z3 Int).  Keys are axis names, or
    (treepath label, name) for '?' axes."""

    def __init__(self, single=None, variadic=None):
        self.single = dict(single or {})
        self.variadic = dict(variadic or {})

    def copy(self):
        return Bindings(self.single, self.variadic)


def _bshape(vs, ps):
    """(compatible: z3 Bool, broadcast shape: list) for two concrete-rank shapes"""
    n = max(len(vs), len(ps))

    def at(lst, k):
        return lst[len(lst) - k] if k <= len(lst) else None

    compat, out = [], []
    for k in range(n, 0, -1):
        a, b = at(vs, k), at(ps, k)
        if a is None:
            out.append(b)
        elif b is None:
            out.append(a)
        else:
            compat.append(z3.Or(a == b, a == 1, b == 1))
            out.append(z3.If(a == 1, b, a))
    return _And(compat), out


def _eq_shapes(l1, l2):
    if len(l1) != len(l2):
        return z3.BoolVal(False)
    return _And(x == y for x, y in zip(l1, l2))


def _z(x):
    return z3.IntVal(x) if isinstance(x, int) else x


def step(dims, shape, B, args=None, tp=None):
    """One check of `shape` (list of z3 Int / int, concrete rank) against parsed `dims`
    from binding state B.

    tp: treepath label (hashable) when inside a structured PyTree, else None.
    Returns dict(strict=z3 Int, R=z3 Int, E=z3 Bool, B=Bindings-after-ACC).
      strict : sequential verdict (first failing/raising axis decides)
      R      : verdict with every raising axis treated as a wildcard (ACC or REJ)
      E      : some raising axis is reached (not skipped via '#' and size 1)
    """
    args = args or {}
    shape = [_z(s) for s in shape]
    rank = len(shape)
    ivar = [i for i, d in enumerate(dims) if d["kind"] in ("anonvar", "namedvar")]
    assert len(ivar) <= 1
    rej = dict(strict=z3.IntVal(REJ), R=z3.IntVal(REJ), E=z3.BoolVal(False), B=B)
    if not ivar:
        if rank != len(dims):
            return rej
        pairs = list(zip(dims, shape))
        vd = None
    else:
        i = ivar[0]
        if rank < len(dims) - 1:
            return rej
        nsuf = len(dims) - i - 1
        pairs = list(zip(dims[:i], shape[:i])) + list(zip(dims[i + 1:], shape[rank - nsuf:]))
        vd = (dims[i], shape[i:rank - nsuf])
    env = dict(B.single)
    steps = []  # (ok: z3 Bool, err: z3 Bool)   err => raises when reached

    def key_of(d):
        return (tp, d["name"]) if d.get("tp") else d["name"]

    for d, s in pairs:
        if d["kind"] == "anon":
            continue
        skip = z3.And(z3.BoolVal(bool(d["bc"])), s == 1)
        if d["kind"] == "fixed":
            steps.append((z3.Or(skip, s == d["size"]), z3.BoolVal(False)))
        elif d["kind"] == "named":
            if d.get("tp") and tp is None:
                steps.append((z3.BoolVal(True), z3.Not(skip)))
                continue
            k = key_of(d)
            p, v = env.get(k, (z3.BoolVal(False), z3.IntVal(0)))
            steps.append((z3.Or(skip, z3.Not(p), v == s), z3.BoolVal(False)))
            env[k] = (_simp(z3.Or(p, z3.Not(skip))), _simp(z3.If(p, v, s)))
        elif d["kind"] == "expr":
            allp, val = eval_expr(d["expr"], env, args)
            steps.append((z3.Or(skip, z3.Not(allp), val == s), z3.And(z3.Not(skip), z3.Not(allp))))
        else:
            raise AssertionError(d)
    venv = dict(B.variadic)
    if vd is not None and vd[0]["kind"] == "namedvar":
        d, vs = vd
        vs = list(vs)
        if d.get("tp") and tp is None:
            steps.append((z3.BoolVal(True), z3.BoolVal(True)))
        else:
            k = key_of(d)
            newbc = bool(d["bc"])
            if k not in venv:
                venv[k] = (newbc, vs)
            else:
                pbc, ps = venv[k]
                compat, bs = _bshape(vs, ps)
                if pbc and newbc:
                    ok = compat
                    venv[k] = (True, bs)
                elif pbc and not newbc:
                    ok = z3.And(compat, _eq_shapes(bs, vs))
                    venv[k] = (False, vs)
                elif not pbc and newbc:
                    ok = z3.And(compat, _eq_shapes(bs, ps))
                else:
                    ok = _eq_shapes(vs, ps)
                steps.append((ok, z3.BoolVal(False)))
    strict = z3.IntVal(ACC)
    for ok, err in reversed(steps):
        strict = z3.If(err, ERR, z3.If(ok, strict, REJ))
    R = z3.If(_And(ok for ok, _ in steps), ACC, REJ)
    E = _Or(err for _, err in steps)
    return dict(strict=_simp(strict), R=_simp(R), E=_simp(E),
                B=Bindings(env, venv))


def verdict_allowed(st, got):
    """z3 Bool: is the observed verdict `got` (python int ACC/REJ/ERR) allowed?

    Leniency (DESIGN Appendix A): when some other axis mismatches, REJ or ERR are both
    accepted; ACC is never accepted unless the strict semantics accepts."""
    R, E = st["R"], st["E"]
    if got == ACC:
        return z3.And(R == ACC, z3.Not(E))
    if got == REJ:
        return R == REJ
    if got == ERR:
        return E
    return z3.BoolVal(False)
