#!/usr/bin/env python3
"""Regenerates MANIFEST.json from the table below (kept in one place so it stays valid)."""
import json, os
HERE = os.path.dirname(os.path.abspath(__file__))
props = [json.loads(l) for l in open(os.path.join(HERE, "properties.jsonl"))]
CHECKS = json.load(open(os.path.join(HERE, "checks", "registry.json")))
checks, na = [], []
for p in props:
    pid = p["id"]
    c = CHECKS.get(pid)
    if c is None or c.get("not_applicable"):
        na.append(dict(property_id=pid, reason=(c or {}).get("not_applicable", "check not built yet (work in progress)")))
        continue
    checks.append(dict(
        property_id=pid,
        quick_cmd=f"./check {pid} --tier quick",
        thorough_cmd=f"./check {pid} --tier thorough",
        evidence_file=f"evidence/{pid}.json",
        replay_cmd_template=f"./check {pid} --replay {{path}}",
        engine="symx",
        level_claimed=dict(category="model_checking", text=c["text"], design_ref=c.get("design_ref", f"DESIGN.md §4 {pid}")),
        level_note=c["note"],
        technique=c["technique"],
    ))
m = dict(
    version=1,
    setup_cmd="./setup.sh",
    hooks=dict(guard="JAXTYPING_VERIF", enable="no source hooks: instrumentation is by harness-side substitution of environment objects (numpy.broadcast_shapes, threading.local, importlib, os.environ); checks import jaxtyping from /repo's working tree",
               baseline_off_cmd="cd /repo && /venv/bin/python -m pytest -ra -q -p no:cacheprovider --timeout=900 --continue-on-collection-errors",
               source_commits=[], add_only=True),
    engines=[dict(name="symx", path="symx/", serves_properties=[c["property_id"] for c in checks],
                  kind_free_text="dynamic symbolic execution of the real jaxtyping code on proxy objects (SymInt/SymBool/SymStr) with z3 deciding every branch and every obligation; DFS over feasible paths; counterexamples replayed on the real code with numpy arrays")],
    checks=checks,
    not_applicable=na,
    notes="Exit codes: 0 held on everything explored, 1 replayed violation (VIOLATION line), 2 inconclusive. See DESIGN.md.",
)
json.dump(m, open(os.path.join(HERE, "MANIFEST.json"), "w"), indent=1)
print("checks:", [c["property_id"] for c in checks], "n/a:", [x["property_id"] for x in na])
