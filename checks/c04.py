"""C04 -- a failed or raising check binds nothing; a passing check is idempotent.

Real code executed symbolically: the rollback paths of _MetaAbstractArray.__instancecheck_str__
and _MetaPyTree.__instancecheck__/_check (set_shape_memo, memo copies), on symbolic shapes so
that *where* the mismatch occurs (first axis, last axis, suffix after a variadic, k-th leaf,
k-th attribute access that raises) is chosen by the solver.
Obligations (solver queries over each path condition):
  verdict != accepted  =>  bindings after == bindings before      ("unchanged")
  verdict == accepted  =>  the same check again is accepted        ("idem-verdict")
                           and changes no binding                   ("idem-bindings")
Observation is through the public print_bindings(); names, sizes and structure lines.
"""
import random

import z3

from checks import base, c01
from env import broadcast
from env.fakes import FakeArr
from spec import compare, dims as D
from symx import core

PROPERTY = "C04"
TITLE = "A failed or raising check binds nothing; a passing check is idempotent"

ARRAY_DIMS = [
    "a b", "a b 3", "a #b a", "b a+1", "a *v", "*v a", "a *v b", "#a *#v 2", "*#v a", "... a b",
    "a ... b", "a b+1", "b a-1 a", "#a #a", "a 2*a", "a _ b", "*v", "*#v", "a {n}+1", "{n} a a",
    "c a b", "a c b", "a b c", "c+1 a", "a *v c+1",
]
ARRAY_PRIORS = [[], ["a"], ["b"], ["*v"], ["*#v"], ["a", "*#v"], ["#a #b", "*v"]]

LEAF_DIMS = ["a b", "a *v", "#a b", "a a+1", "*#v a", "a", "c b", "a c+1"]
SKELETONS = ["(x0,)", "(x0, x1)", "[x0, (x1, x2)]", "{'p': x0, 'q': [x1, x2, x3]}", "(x0, None, x1)",
             "[x0, [x1], ()]"]
STRUCTS = [None, "T", "T:same", "T:other", "S T", "T ...", "... T"]


def instances(tier, seed):
    rng = random.Random(seed)
    out = []
    mr = 3 if tier == "quick" else 4
    for d in ARRAY_DIMS:
        for p in ARRAY_PRIORS:
            g = "core" if (tier == "thorough" or not p or rng.random() < 0.4) else "ext"
            out.append((g, dict(kind="array", dims=d, prior=p, maxrank=mr, dtype="in", atype="inst")))
    # exceptions thrown by user code during the check (array attribute access)
    for d in ["a b", "a *v b", "*#v a", "a b+1", "a *v"]:
        for p in ([], ["*v"], ["b"]):
            for attr in ("shape", "dtype"):
                out.append(("core", dict(kind="fault", dims=d, prior=p, maxrank=3, attr=attr)))
    # {expr} that raises inside a symbolic axis
    for d in ["a {boom}", "a b {boom}+1", "a *v {boom}"]:
        out.append(("core", dict(kind="exprfault", dims=d, prior=[], maxrank=3)))
    # a raising / failing array check while the context holds a structure name and arguments
    for d in ("a a+nope", "a b", "?a", "a {n}+1", "a {boomv}"):
        out.append(("core", dict(kind="withstruct", dims=d, prior=[], maxrank=2)))
    # unions whose first alternative fails late
    for alts in (["a 3", "a b"], ["a b 2", "b a"], ["a *v 2", "*v a"], ["a a+1", "a b"], ["a c+1", "a b"]):
        for p in ([], ["a"], ["*v"]):
            out.append(("core", dict(kind="union", alts=alts, prior=p, maxrank=3)))
    # pytrees
    trees = []
    for sk in SKELETONS:
        for ld in LEAF_DIMS:
            for stt in STRUCTS:
                for p in [[], ["a"]] + ([["*#v"], ["*v"]] if "v" in ld else []):
                    trees.append(dict(kind="pytree", skel=sk, leaf=ld, struct=stt, prior=p,
                                      maxrank=2))
    rng.shuffle(trees)
    # a structure-less PyTree whose leaf type contains a *named* PyTree: a later leaf fails
    for variant in range(8):
        out.append(("core", dict(kind="nestedstruct", variant=variant, prior=[], maxrank=1)))
    ncore = 170 if tier == "quick" else len(trees)
    for i, t in enumerate(trees):
        out.append(("core" if i < ncore else "ext", t))
    out.sort(key=lambda x: x[0] != "core")
    return out


BOUNDS = dict(array="dim strings from a 25-string list x 7 prior menus, rank 0..3 (thorough 0..4), sizes unbounded",
              fault="exception raised by the k-th access to .shape/.dtype, k symbolic in 1..6; exception classes ValueError, RuntimeError, user Exception subclass",
              pytree="6 tree skeletons (<=4 array leaves, depth <=2), 8 leaf dim strings, 7 structure forms, leaf rank 0..2, sizes unbounded",
              union="Union of two array annotations, first alternative failing after partial progress")
STUBS = c01.STUBS + ["FaultArr: FakeArr whose shape/dtype attribute raises at a solver-chosen access count"]
ASSUMPTIONS = ["observation through print_bindings() (axis and structure sections)",
               "BaseException raised from user code is C12's subject, not judged here",
               "jax.tree_util.tree_flatten (C++) is executed concretely on the tree skeleton; leaves are opaque to it"]
REQUIRED_LABELS = {"unchanged", "idem-verdict", "idem-bindings"}
REQUIRED_WITNESS = {"ACC", "REJ", "ERR", "RAISE", "pytree-REJ", "pytree-ACC", "pytree-ERR", "union-ACC"}
BUDGET_S = {"quick": 150, "thorough": 1500}
setup_worker = c01.setup_worker
preflight = c01.preflight


class UserError(Exception):
    pass


EXC = [ValueError, RuntimeError, UserError]


class FaultArr(FakeArr):
    """shape/dtype raise at the k-th access (k chosen by the solver)."""

    def __init__(self, shape, dtype, attr, k, exc):
        self.__dict__["_s"] = tuple(shape)
        self.__dict__["_d"] = dtype
        self.__dict__["_attr"] = attr
        self.__dict__["_k"] = k
        self.__dict__["_n"] = 0
        self.__dict__["_exc"] = exc

    def _tick(self, which):
        d = self.__dict__
        if d["_attr"] == which:
            d["_n"] += 1
            if d["_n"] == d["_k"]:
                raise d["_exc"]("injected fault")

    @property
    def shape(self):
        self._tick("shape")
        return self.__dict__["_s"]

    @property
    def dtype(self):
        self._tick("dtype")
        return self.__dict__["_d"]


def observe(fn):
    """Run a check; returns verdict code or ('RAISE', clsname)."""
    from jaxtyping import AnnotationError
    try:
        r = fn()
        return D.ACC if r else D.REJ
    except AnnotationError:
        return D.ERR
    except (core.PathAbort, core.Unsupported, core.Nondeterminism, core.StopPath):
        raise
    except Exception as e:  # noqa
        return "RAISE:" + type(e).__name__


def judge(V, pre, got, post, recheck, tag=""):
    """The C04 obligations for one check."""
    name = D.VERDICT.get(got, "RAISE") if isinstance(got, int) else "RAISE"
    V.reach(tag + name)
    if got != D.ACC:
        compare.check_unchanged(V, "unchanged", pre, post, verdict=str(got))
    else:
        got2 = recheck()
        V.check("idem-verdict", got2 == D.ACC, second=str(got2))
        post2 = base.bindings()
        compare.check_unchanged(V, "idem-bindings", post, post2)
    return name


def build_tree(skel, leaves):
    env = {f"x{i}": l for i, l in enumerate(leaves)}
    return eval(skel, {}, env)


def n_leaves(skel):
    return sum(f"x{i}" in skel for i in range(6))


OTHER_SKEL = {"(x0,)": "(x0, x0)", "(x0, x1)": "[x0, x1]", "[x0, (x1, x2)]": "[x0, (x1,), x2]",
              "{'p': x0, 'q': [x1, x2, x3]}": "{'p': x0, 'r': [x1, x2, x3]}",
              "(x0, None, x1)": "(x0, x1, None, x0)", "[x0, [x1], ()]": "[x0, (x1,), ()]"}


def scenario(inst, V):
    import jaxtyping as jt
    from jaxtyping import jaxtyped
    kind = inst["kind"]
    obs = {}

    if kind == "array":
        return scenario_array(inst, V)

    def ctx_body(args):
        c01.run_priors(inst, V, args)
        pre = base.bindings()
        if kind == "fault":
            rank = V.choose("rank", inst["maxrank"] + 1)
            shape = [V.int(f"s{i}", 0) for i in range(rank)]
            k = V.int("k", 1, 6)
            exc = EXC[V.choose("exc", len(EXC))]
            ann = jt.Float[FaultArr, inst["dims"]]

            def mk():
                return FaultArr(shape, "float32", inst["attr"], k, exc)
            got = observe(lambda: isinstance(mk(), ann))
            post = base.bindings()
            n = judge(V, pre, got, post,
                      lambda: observe(lambda: isinstance(FaultArr(shape, "float32", "none", 0, exc), ann)))
            obs.update(verdict=n)
        elif kind == "exprfault":
            rank = V.choose("rank", inst["maxrank"] + 1)
            shape = [V.int(f"s{i}", 0) for i in range(rank)]
            ann = jt.Float[V.ARR, inst["dims"].replace("{boom}", "{boom.value}")]
            arr = V.arr(shape)
            got = observe(lambda: isinstance(arr, ann))
            post = base.bindings()
            n = judge(V, pre, got, post, lambda: observe(lambda: isinstance(arr, ann)))
            obs.update(verdict=n)
        elif kind == "union":
            import functools
            import operator
            rank = V.choose("rank", inst["maxrank"] + 1)
            shape = [V.int(f"s{i}", 0) for i in range(rank)]
            # X | Y (types.UnionType): isinstance() consults each alternative in turn
            ann = functools.reduce(operator.or_, [jt.Float[V.ARR, a] for a in inst["alts"]])
            arr = V.arr(shape)
            got = observe(lambda: isinstance(arr, ann))
            post = base.bindings()
            n = judge(V, pre, got, post, lambda: observe(lambda: isinstance(arr, ann)), tag="union-")
            obs.update(verdict=n, single=post["single"], variadic=post["variadic"])
        elif kind == "nestedstruct":
            import typing
            v = inst["variant"]
            expected = None
            if v < 4:
                leafT = tuple[jt.PyTree[int, "T"], str]
                good, bad = ((1, 2), "a"), ((3, 4), 5)
                tree = [[good, bad], [good, ((3, 4, 5), "b")], [bad], [good, good]][v]
            elif v < 6:
                # the named PyTree is one member of a union: while the enclosing tree is being
                # flattened, the probe of an intermediate node binds T and then fails at a leaf
                leafT = typing.Union[str, jt.PyTree[int, "T"]]
                tree = [(1, "hi"), [(1, 2), (3, 4), "s"]][v - 4]
                expected = D.ACC
            else:
                # the same with array leaves of solver-chosen sizes
                inner = jt.PyTree[jt.Float[V.ARR, "a"], "T"]
                leafT = typing.Union[int, inner]
                x, y = V.arr([V.int("lx", 0)]), V.arr([V.int("ly", 0)])
                tree = [[(x, y), 7], [(x, y), (y, x), 7]][v - 6]
            pre = base.bindings()
            got = observe(lambda: isinstance(tree, jt.PyTree[leafT]))
            post = base.bindings()
            if expected is not None:
                V.check("nested-verdict", got == expected, got=str(got))
            n = judge(V, pre, got, post, lambda: observe(lambda: isinstance(tree, jt.PyTree[leafT])), tag="pytree-")
            obs.update(verdict=n, pytree=sorted(post["pytree"]))
        elif kind == "pytree":
            nl = n_leaves(inst["skel"])
            leaves = []
            for i in range(nl):
                r = V.choose(f"r{i}", inst["maxrank"] + 1)
                leaves.append(V.arr([V.int(f"l{i}_{j}", 0) for j in range(r)]))
            tree = build_tree(inst["skel"], leaves)
            stt = inst["struct"]
            leaf_ann = jt.Float[V.ARR, inst["leaf"]]
            if stt is None:
                ann = jt.PyTree[leaf_ann]
            elif stt.startswith("T:"):
                # T is bound beforehand by a tree of the same / of another structure
                other = inst["skel"] if stt == "T:same" else OTHER_SKEL[inst["skel"]]
                t0 = build_tree(other, [1, 2, 3, 4][:max(n_leaves(other), 1)])
                if not isinstance(t0, jt.PyTree[int, "T"]):
                    raise core.PathAbort("prior structure binding failed")
                pre = base.bindings()
                ann = jt.PyTree[leaf_ann, "T"]
            else:
                ann = jt.PyTree[leaf_ann, stt]
            got = observe(lambda: isinstance(tree, ann))
            post = base.bindings()
            n = judge(V, pre, got, post, lambda: observe(lambda: isinstance(tree, ann)), tag="pytree-")
            obs.update(verdict=n, single={k: v for k, v in post["single"].items()},
                       variadic=post["variadic"], pytree=sorted(post["pytree"]))
        else:
            raise AssertionError(kind)

    if kind == "withstruct":
        class BoomV:
            def __format__(self, spec):
                raise UserError("boom in format")

        @jaxtyped(typechecker=None)
        def g(n, boomv):
            # structure name T and arguments n / boomv are in this call's context
            if not isinstance((1, (2, 3)), jt.PyTree[int, "T"]):
                raise core.PathAbort("structure binding failed")
            pre = base.bindings()
            rank = V.choose("rank", inst["maxrank"] + 1)
            shape = [V.int(f"s{i}", 0) for i in range(rank)]
            arr = V.arr(shape)
            ann = jt.Float[V.ARR, inst["dims"]]
            got = observe(lambda: isinstance(arr, ann))
            post = base.bindings()
            nm = judge(V, pre, got, post, lambda: observe(lambda: isinstance(arr, ann)))
            # behavioural: T still means (leaf, (leaf, leaf)) and {n} is still this call's argument
            t_same = observe(lambda: isinstance((5, (6, 7)), jt.PyTree[int, "T"]))
            t_other = observe(lambda: isinstance((5, 6), jt.PyTree[int, "T"]))
            nn = V.arr([V.int("pn", 0)])
            r_n = observe(lambda: isinstance(nn, jt.Float[V.ARR, "{n}"]))
            V.check("unchanged", t_same == D.ACC and t_other == D.REJ, what="structure name after the check",
                    same=str(t_same), other=str(t_other))
            V.check("unchanged", r_n in (D.ACC, D.REJ), what="{n} still evaluable after the check", got=str(r_n))
            obs.update(verdict=nm)
        g(V.int("n", 0), BoomV())
        return obs
    if kind == "exprfault":
        class Boom:
            @property
            def value(self):
                raise UserError("boom")

        @jaxtyped(typechecker=None)
        def f(boom, run):
            run({})
        f(Boom(), ctx_body)
    else:
        with jaxtyped("context"):
            ctx_body({})
    return obs


def scenario_array(inst, V):
    """Array family: C01's scenario body with the C04 obligations."""
    from jaxtyping import jaxtyped
    ann = c01.build_annotation(inst, V)
    obs = {}

    def body(args):
        c01.run_priors(inst, V, args)
        pre = base.bindings()
        rank = V.choose("rank", inst["maxrank"] + 1)
        shape = [V.int(f"s{i}", 0) for i in range(rank)]
        arr = V.arr(shape)
        got = observe(lambda: isinstance(arr, ann))
        post = base.bindings()
        n = judge(V, pre, got, post, lambda: observe(lambda: isinstance(arr, ann)))
        obs.update(verdict=n, single=post["single"], variadic=post["variadic"])

    if "{n}" in inst["dims"]:
        @jaxtyped(typechecker=None)
        def f(n, run):
            run({"n": core.lift(n)})
        f(V.int("n", -3), body)
    else:
        with jaxtyped("context"):
            body({})
    return obs


def _key(inst, label, vals, info):
    d = {k: v for k, v in inst.items() if k != "maxrank"}
    return f"{label}|{sorted(d.items())!r}"


harness, concrete_run, replay, finding_key = base.make_api(scenario, _key)
