"""C02 -- a checked call is accepted iff one consistent axis assignment exists.

Real code executed symbolically: jaxtyped(typechecker=...) wrappers (wrapped_fn, wrapped_fn_impl,
_make_fn_with_signature, _get_problem_arg), the memo stack, the array instance checks, driven
through the real typeguard 2.13 and beartype decorators.
Symbolic: all argument / return shapes (unbounded sizes; rank is a solver-branched selector).
Oracle: the declarative semantics  EXISTS sigma. AND_i match(annotation_i, shape_i, sigma)
(spec.exists), decided per path without quantifiers:
  accepted path:  PC => match_all(sigma_w)   with sigma_w a witness built from the reference
                  sequential semantics (validity checked by the solver, so a wrong witness can
                  only produce an alarm that is then re-examined, never a missed violation)
  rejected path:  PC AND match_all(sigma_fresh) must be UNSAT
Variants (declaration order, positional/keyword, typeguard/beartype, dataclass) are executed in
the same path on the same symbolic arguments and must agree.
"""
import itertools
import random

import z3

from checks import base, c01, fnlib
from spec import dims as D
from spec import exists as X
from symx import core

PROPERTY = "C02"
TITLE = "A checked call is accepted iff one consistent axis assignment exists"

STRINGS = ["a b", "b a", "#a b", "a #b", "*v a", "a *v", "*#v", "*#v a", "... a", "a+1", "a b+1",
           "2 a", "_ a", "", "*v", "#a", "a", "b", "a a", "*#v b", "#a #b", "#a+1", "b #a+b"]
EXPR = {"a+1": "a", "a b+1": "b", "#a+1": "a", "b #a+b": "a"}  # string -> name that must be bound by an earlier parameter
BINDS = {"a": ["a b", "b a", "a #b", "*v a", "a *v", "... a", "2 a", "_ a", "a", "a a"],
         "b": ["a b", "b a", "#a b", "b", "*#v b"]}


def ok_order(params):
    """symbolic axes only after a (non-#) binder of their name"""
    seen = set()
    for p in params:
        if p in EXPR:
            if EXPR[p] not in seen:
                return False
        for n, lst in BINDS.items():
            if p in lst:
                seen.add(n)
    return True


def instances(tier, seed):
    rng = random.Random(seed)
    out = []
    mr = 2 if tier == "quick" else 3
    sigs = []
    for a, b in itertools.product(STRINGS, repeat=2):
        if ok_order([a, b]):
            sigs.append(([a, b], None))
            if b not in EXPR:
                sigs.append(([a], b))       # one parameter + return
            else:
                sigs.append(([a], b))
    three = []
    for t in itertools.product(STRINGS, repeat=3):
        if ok_order(t):
            three.append((list(t[:2]), t[2]))
            three.append((list(t), None))
    four = [(list(t[:3]), t[3]) for t in itertools.product(STRINGS[:12], repeat=4) if ok_order(t)]
    rng.shuffle(sigs)
    rng.shuffle(three)
    rng.shuffle(four)
    ncore = 120 if tier == "quick" else len(sigs)
    for i, (ps, r) in enumerate(sigs):
        out.append(("core" if i < ncore else "ext", dict(params=ps, ret=r, maxrank=mr)))
    n3 = 150 if tier == "quick" else 2500
    for ps, r in three[:n3]:
        out.append(("ext", dict(params=ps, ret=r, maxrank=mr if len(ps) < 3 else 2)))
    n4 = 0 if tier == "quick" else 400
    for ps, r in four[:n4]:
        out.append(("ext", dict(params=ps, ret=r, maxrank=2)))
    # give every instance a declaration permutation that respects the proviso
    for _, inst in out:
        idx = list(range(len(inst["params"])))
        perms = [p for p in itertools.permutations(idx) if ok_order([inst["params"][i] for i in p])]
        inst["perm"] = list(perms[rng.randrange(len(perms))]) if perms else idx
        inst["perm2"] = list(perms[-1]) if perms else idx
    out.sort(key=lambda x: x[0] != "core")
    return out


BOUNDS = {"quick": dict(parameters="1..3 array parameters (+ return)", rank="0..2 per array", sizes="unbounded",
                        strings=f"{len(STRINGS)}-string list", variants="typeguard pos/kw, beartype, permuted declaration, dataclass, derived dataclass, *args, keyword-only with defaults, string annotations"),
          "thorough": dict(parameters="1..4 array parameters (+ return)", rank="0..3 (0..2 for >=3 params)", sizes="unbounded",
                           strings=f"{len(STRINGS)}-string list", variants="typeguard pos/kw, beartype, 2 permuted declarations, dataclass, derived dataclass, *args, keyword-only with defaults, string annotations")}
STUBS = c01.STUBS
ASSUMPTIONS = ["symbolic axes only after a parameter binding their names (the statement's proviso); "
               "paths where such a name ends up unbound ('#a' matched by size 1) raise AnnotationError and are outside the claim",
               "sigma_fresh gives each *name a rank <= max rank of the arrays involved",
               "old-style double decoration is exercised in C05/C12"]
REQUIRED_LABELS = {"exists-sound", "exists-complete", "variants-agree"}
REQUIRED_WITNESS = {"OK", "TCE"}
BUDGET_S = {"quick": 200, "thorough": 1800}
MAX_PATHS = 20000
setup_worker = c01.setup_worker
preflight = c01.preflight


def scenario(inst, V):
    params, ret = inst["params"], inst["ret"]
    k = len(params)
    mr = inst["maxrank"]
    shapes = []
    for i in range(k):
        r = V.choose(f"r{i}", mr + 1)
        shapes.append([V.int(f"s{i}_{j}", 0) for j in range(r)])
    rshape = None
    if ret is not None:
        r = V.choose("rr", mr + 1)
        rshape = [V.int(f"sr_{j}", 0) for j in range(r)]
    values = [V.arr(s) for s in shapes]
    fnlib.HOLD["ret"] = V.arr(rshape) if rshape is not None else None
    fnlib.HOLD["body_exc"] = None
    ident = list(range(k))
    variants = [("typeguard", "function", ident, "pos"), ("typeguard", "function", ident, "kw"),
                ("beartype", "function", ident, "pos"), ("typeguard", "function", inst["perm"], "pos"),
                ("beartype", "function", inst["perm2"], "kw")]
    if ret is None:
        variants.append(("typeguard", "dataclass", ident, "pos"))
        variants.append(("beartype", "dataclass", inst["perm"], "kw"))
    if k >= 2:
        # the last parameter declared as annotated *args (receiving exactly one array)
        variants.append(("typeguard", "varargs", ident, "pos"))
        variants.append(("beartype", "varargs", ident, "pos"))
    if k >= 2:
        # all parameters keyword-only, those binding names carrying a (never used) default
        variants.append(("typeguard", "kwonly", ident, "kw"))
        variants.append(("beartype", "kwonly", inst["perm"], "kw"))
        if ret is None:
            variants.append(("typeguard", "dataclass-derived", ident, "pos"))
            variants.append(("beartype", "dataclass-derived", inst["perm2"], "kw"))
    variants.append(("typeguard", "function-str", ident, "pos"))
    variants.append(("beartype", "function-str", ident, "kw"))
    verdicts = []
    for tc, style, order, how in variants:
        if style == "function-str":
            # the same function with *string* annotations (resolved by jaxtyped at decoration time)
            fn, pn = fnlib.build(params, ret, V.ARR, tc, "function", order, stringify=True)
            style = "function"
        elif style == "kwonly":
            fn, pn = fnlib.build(params, ret, V.ARR, tc, style, order,
                                 defaults={i: None for i in range(k) if params[i] not in EXPR})
        else:
            fn, pn = fnlib.build(params, ret, V.ARR, tc, style, order)
        n0 = fnlib.HOLD["calls"]
        vals = [values[i] for i in order] if how == "pos" else values
        names = [pn[i] for i in order] if how == "pos" else pn
        kind, res = fnlib.call(fn, names, vals, how)
        if kind == "OK" and style == "function":
            V.check("result-identity", res is fnlib.HOLD["ret"])
        verdicts.append(kind)
    if ret is not None:
        # a forgotten `return`: None can never match an array annotation
        fnlib.HOLD["ret"] = None
        for tc, style in (("typeguard", "function"), ("beartype", "function")):
            fn, pn = fnlib.build(params, ret, V.ARR, tc, style, ident)
            kind, _ = fnlib.call(fn, pn, values, "pos")
            V.check("none-return-rejected", kind in ("TCE", "ERR"), got=kind, tc=tc)
    v0 = verdicts[0]
    V.reach(v0)
    V.check("variants-agree", all(v == v0 for v in verdicts), verdicts=verdicts)
    if v0 == "ERR":
        return dict(verdicts=verdicts)
    V.check("verdict-class", v0 in ("OK", "TCE"), verdict=v0)
    # declarative oracle
    plist = [D.parse_ref(p) for p in params]
    all_dims = plist + ([D.parse_ref(ret)] if ret is not None else [])
    all_shapes = [[core.lift(s) for s in sh] for sh in shapes] + \
        ([[core.lift(s) for s in rshape]] if ret is not None else [])
    if v0 == "OK":
        B = D.Bindings()
        for dm, sh in zip(all_dims, all_shapes):
            B = D.step(dm, sh, B)["B"]
        sg = X.sigma_from_bindings(B)
        V.check("exists-sound", z3.And(*[X.match(dm, sh, sg) for dm, sh in zip(all_dims, all_shapes)]))
    elif v0 == "TCE":
        names, vnames = X.names_of(all_dims)
        sg = X.fresh_sigma(names, vnames, mr)
        cs = X.sigma_constraints(sg, mr)
        ex = z3.And(*(cs + [X.match(dm, sh, sg) for dm, sh in zip(all_dims, all_shapes)]))
        V.check("exists-complete", z3.Not(ex))
    return dict(verdicts=verdicts)


def _key(inst, label, vals, info):
    return f"{label}|params={inst['params']!r}|ret={inst['ret']!r}"


harness, concrete_run, replay, finding_key = base.make_api(scenario, _key)
