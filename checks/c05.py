"""C05 -- bindings live exactly as long as one jaxtyped call or context block.

Real code executed symbolically: jaxtyped (all decoration routes: new-style wrapped_fn /
wrapped_fn_impl, old-style wrapped_fn, typechecker=None, dataclass __init__, methods,
_JaxtypingContext), push_shape_memo / pop_shape_memo / get_shape_memo, the instance checks.
A *program* (nested decorated calls, context blocks, manual checks, observations, exits by
return / Exception / BaseException, generator and coroutine creation) is interpreted against
the real API and, in lock-step, against a reference interpreter holding an explicit stack of
binding maps.  Shapes and {n} argument values are solver variables; per path z3 decides that
every verdict and every observed binding agrees with the reference for all values.
The program itself is a selector (enumerated family, stated in bounds).
"""
import dataclasses
import itertools
import random
import warnings

import z3

from checks import base, c01, fnlib
from spec import compare, dims as D
from symx import core

PROPERTY = "C05"
TITLE = "Bindings live exactly as long as one jaxtyped call or context block"

KINDS = ["new-typeguard", "new-beartype", "old-typeguard", "none", "dataclass", "method", "old-beartype",
         "bare-typeguard", "bare-beartype", "propget-typeguard", "propset-typeguard", "propdel-typeguard",
         "propdel-beartype", "classmethod-typeguard", "staticmethod-beartype"]


def kind_info(kind):
    """(the call's context has an argument `n`, the call binds 'a b' from its array argument)"""
    if kind.startswith(("propget", "propdel")):
        return False, False
    if kind.startswith("propset"):
        return False, True
    if kind == "none" or kind.startswith("bare-"):
        return True, False
    return True, True
EXITS = ["return", "ValueError", "KeyboardInterrupt", "GeneratorExit", "SystemExit"]
CHECKS = ["a", "b", "a b", "a {n}", "c", "#a c"]

_EXC = {"ValueError": ValueError, "KeyboardInterrupt": KeyboardInterrupt,
        "GeneratorExit": GeneratorExit, "SystemExit": SystemExit}


def body_menu(rng, depth):
    ops = []
    for _ in range(rng.randrange(1, 3)):
        r = rng.random()
        if r < 0.45:
            ops.append(["check", rng.choice(CHECKS)])
        elif r < 0.7:
            ops.append(["observe"])
        elif depth > 0 and r < 0.88:
            ops.append(["call", rng.choice(KINDS), body_menu(rng, depth - 1), rng.choice(EXITS)])
        elif depth > 0:
            ops.append(["ctx", body_menu(rng, depth - 1), rng.choice(["return", "ValueError", "KeyboardInterrupt"])])
        else:
            ops.append(["observe"])
    return ops


def instances(tier, seed):
    rng = random.Random(seed)
    out = []
    inner = [["check", "a"], ["observe"], ["check", "a {n}"]]
    for k in KINDS:
        for ex in EXITS:
            # inside an enclosing context that already bound `a`
            out.append(("core", dict(prog=[["ctx", [["check", "a"], ["call", k, inner, ex], ["observe"], ["check", "a"]], "return"]])))
            # at top level
            out.append(("core", dict(prog=[["call", k, inner, ex], ["observe"], ["check", "a"]])))
    for k in KINDS:
        # {n} belongs to the call; a context block nested in it has no arguments of its own
        out.append(("core", dict(prog=[["call", k, [["check", "a {n}"], ["ctx", [["check", "a {n}"], ["observe"]], "return"],
                                                    ["call", "none", [["check", "a {n}"], ["observe"]], "return"], ["observe"]], "return"], ["observe"]])))
    for k in KINDS:
        out.append(("core", dict(prog=[["ctx", [["check", "a"], ["badcall", k], ["observe"], ["check", "a"]], "return"], ["observe"]])))
        out.append(("core", dict(prog=[["call", "new-typeguard", [["check", "c"], ["badcall", k], ["observe"], ["check", "c"]], "return"], ["observe"]])))
    for k1, k2 in itertools.product(KINDS, repeat=2):
        if (KINDS.index(k1) >= 9 or KINDS.index(k2) >= 9) and "new-typeguard" not in (k1, k2):
            continue  # descriptor routes are paired with the plain new-style route only
        for ex in ("return", "ValueError", "KeyboardInterrupt"):
            g = "core" if (tier == "thorough" or rng.random() < 0.25) else "ext"
            out.append((g, dict(prog=[["call", k1, [["check", "b"], ["call", k2, [["check", "b"], ["observe"]], ex],
                                                  ["observe"], ["check", "b"]], "return"], ["observe"]])))
    for ex in ("return", "ValueError", "KeyboardInterrupt", "SystemExit"):
        out.append(("core", dict(prog=[["ctx", [["check", "a"], ["ctx", [["check", "a"], ["observe"]], ex], ["observe"]], "return"], ["observe"]])))
    for k in ("new-typeguard", "new-beartype", "none"):
        out.append(("core", dict(prog=[["gen", k, [["check", "a"], ["observe"]]], ["observe"], ["check", "a"]])))
        out.append(("core", dict(prog=[["ctx", [["check", "a"], ["gen", k, [["check", "a"], ["observe"]]], ["observe"]], "return"]])))
        out.append(("core", dict(prog=[["coro", k], ["observe"], ["check", "a"]])))
        out.append(("core", dict(prog=[["ctx", [["check", "c"], ["coro", k], ["observe"]], "return"], ["observe"]])))
    # recursion: the same decorated function at three depths
    for k in ("new-typeguard", "old-typeguard", "none"):
        for ex in ("return", "ValueError", "GeneratorExit"):
            out.append(("core", dict(prog=[["call", k, [["check", "c"], ["call", k, [["call", k, [["check", "c"], ["observe"]], ex], ["observe"]], "return"], ["observe"]], "return"], ["observe"]])))
    n = 250 if tier == "quick" else 4000
    for _ in range(n):
        out.append(("ext", dict(prog=body_menu(rng, 3 if rng.random() < 0.6 else 2) + [["observe"]])))
    return out


BOUNDS = dict(programs="fixed core family (every decoration kind x every exit class, at top level and inside a context; all kind pairs nested; nested contexts; generator / coroutine creation; 3-deep recursion) + seeded random programs (<=2 ops per body, depth <=3)",
              kinds=KINDS, exits=EXITS, shapes="rank 0..2 per manual check, call arguments rank 2, all sizes unbounded; {n} unbounded")
STUBS = c01.STUBS
ASSUMPTIONS = ["programs are enumerated/sampled selectors (enumerative residue); the solver decides shapes and argument values",
               "generators: creation and first next() only; coroutines: creation and close()",
               "exceptions are caught immediately at the call site by the interpreter"]
REQUIRED_LABELS = {"verdict", "bindings", "toplevel-stateless", "exit-class"}
REQUIRED_WITNESS = {"exit-TypeError", "exit-return", "exit-ValueError", "exit-KeyboardInterrupt", "exit-GeneratorExit",
                    "exit-SystemExit", "gen", "coro"}
BUDGET_S = {"quick": 150, "thorough": 1500}
setup_worker = c01.setup_worker
preflight = c01.preflight

_fns = {}


def get_fn(kind, ARR, gen=False, coro=False):
    key = (kind, ARR, gen, coro)
    if key in _fns:
        return _fns[key]
    import jaxtyping as jt
    A = jt.Float[ARR, "a b"]
    g = {"A": A, "dataclasses": dataclasses}
    if kind.startswith("bare-"):
        # no annotation at all: nothing to check, but the call still has its own context
        src = "def f(x, n, body):\n    return body()\n"
    elif gen:
        src = "def f(x: A, n, body):\n    body()\n    yield 1\n"
    elif coro:
        src = "async def f(x: A, n, body):\n    body()\n"
    elif kind == "dataclass":
        src = ("@dataclasses.dataclass\nclass f:\n    x: A\n    n: object\n    body: object\n"
               "    def __post_init__(self):\n        self.body()\n")
    elif kind == "method":
        src = "class K:\n    def f(self, x: A, n, body):\n        return body()\n"
    elif kind.startswith("prop"):
        # a property decorated as a whole: getter, setter and deleter are each a decorated call
        src = ("class K:\n"
               "    def _get(self):\n        return self._body()\n"
               "    def _set(self, x: A):\n        return self._body()\n"
               "    def _del(self):\n        return self._body()\n"
               "    p = property(_get, _set, _del)\n")
    elif kind.startswith("classmethod"):
        src = "class K:\n    @classmethod\n    def f(cls, x: A, n, body):\n        return body()\n"
    elif kind.startswith("staticmethod"):
        src = "class K:\n    @staticmethod\n    def f(x: A, n, body):\n        return body()\n"
    else:
        src = "def f(x: A, n, body):\n    return body()\n"
    exec(src, g)
    tcname = kind.split("-")[1] if "-" in kind else ("typeguard" if kind in ("dataclass", "method") else None)
    tc = fnlib.typechecker(tcname)
    with warnings.catch_warnings():
        warnings.simplefilter("ignore")
        if kind == "method":
            K = g["K"]
            K.f = jt.jaxtyped(typechecker=tc)(K.f)
            fn = K().f
        elif kind.startswith("prop"):
            K = g["K"]
            K.p = jt.jaxtyped(typechecker=tc)(K.__dict__["p"])
            how = kind.split("-")[0]

            def fn(x, n, body, K=K, how=how):
                o = K()
                o._body = body
                if how == "propget":
                    return o.p
                elif how == "propset":
                    o.p = x
                else:
                    del o.p
        elif kind.startswith(("classmethod", "staticmethod")):
            K = g["K"]
            K.f = jt.jaxtyped(typechecker=tc)(K.__dict__["f"])
            fn = K.f if kind.startswith("staticmethod") else K().f
        elif kind.startswith("old-"):
            fn = jt.jaxtyped(tc(g["f"]))
        elif kind == "none":
            fn = jt.jaxtyped(typechecker=None)(g["f"])
        else:
            fn = jt.jaxtyped(typechecker=tc)(g["f"])
    _fns[key] = fn
    return fn


class Frame:
    def __init__(self, args=None):
        self.B = D.Bindings()
        self.args = dict(args or {})


def scenario(inst, V):
    import jaxtyping as jt
    from jaxtyping import jaxtyped
    trace = []
    stack = []

    def do_check(dims, tag):
        rank = V.choose(f"{tag}r", 3)
        shape = [V.int(f"{tag}s{i}", 0) for i in range(rank)]
        got = c01.observe_check(V.arr(shape), jt.Float[V.ARR, dims])
        top = stack[-1] if stack else Frame()
        if "{n}" in dims and "n" not in top.args:
            # {n} is not an argument of the current context: the expression cannot be evaluated.
            # (when another axis already mismatches, a plain rejection is acceptable)
            st = D.step(D.parse_ref(dims.replace("{n}", "_")), [core.lift(s) for s in shape], top.B, top.args)
            V.check("verdict", z3.Or(got == D.ERR, z3.And(got == D.REJ, st["R"] == D.REJ)) if got in (0, 1, 2) else False, got=str(got), dims=dims, where=tag)
        else:
            st = D.step(D.parse_ref(dims), [core.lift(s) for s in shape], top.B, top.args)
            V.check("verdict", D.verdict_allowed(st, got) if got in (0, 1, 2) else False, got=str(got), dims=dims, where=tag)
            if got == D.ACC and stack:
                top.B = st["B"]
        trace.append(("check", dims, str(got)))

    def do_observe(tag):
        impl = base.bindings()
        B = stack[-1].B if stack else D.Bindings()
        compare.check_bindings(V, "bindings", impl, B, where=tag, depth=len(stack))
        trace.append(("observe", sorted(impl["single"]), sorted(impl["variadic"])))

    def swallow(fn, expected, tag):
        """run fn(); the exception class `expected` (or none for 'return') must come out"""
        try:
            fn()
            outcome = "return"
        except (core.PathAbort, core.Unsupported, core.Nondeterminism, core.StopPath):
            raise
        except BaseException as e:  # noqa
            outcome = type(e).__name__
        V.check("exit-class", outcome == expected, got=outcome, expected=expected, where=tag)
        V.reach("exit-" + expected)
        trace.append(("exit", outcome))

    def run_ops(ops, tag):
        for i, op in enumerate(ops):
            t = f"{tag}_{i}"
            if op[0] == "check":
                do_check(op[1], t)
            elif op[0] == "observe":
                do_observe(t)
            elif op[0] == "ctx":
                _, body, ex = op

                def block(body=body, ex=ex, t=t):
                    depth = len(stack)
                    stack.append(Frame())
                    try:
                        with jaxtyped("context"):
                            run_ops(body, t)
                            if ex != "return":
                                raise _EXC[ex]("exit")
                    finally:
                        del stack[depth:]
                swallow(block, ex, t)
            elif op[0] == "call":
                _, kind, body, ex = op
                fn = get_fn(kind, V.ARR)
                xs = [V.int(f"{t}xa", 0), V.int(f"{t}xb", 0)]
                n = V.int(f"{t}n", -2)
                x = V.arr(xs)

                def inner(body=body, ex=ex, t=t):
                    run_ops(body, t)
                    if ex != "return":
                        raise _EXC[ex]("exit")

                def docall(fn=fn, x=x, n=n, inner=inner, kind=kind, xs=xs):
                    depth = len(stack)
                    has_n, binds = kind_info(kind)
                    fr = Frame({"n": core.lift(n)} if has_n else {})
                    if binds:
                        fr.B = D.step(D.parse_ref("a b"), [core.lift(s) for s in xs], fr.B)["B"]
                    stack.append(fr)
                    try:
                        fn(x, n, inner)
                    finally:
                        del stack[depth:]
                swallow(docall, ex, t)
            elif op[0] == "badcall":
                # a call that does not bind to the signature: ordinary TypeError, no context touched
                fn = get_fn(op[1], V.ARR)
                swallow(lambda fn=fn: fn(), "TypeError", t)
            elif op[0] == "gen":
                _, kind, body = op
                fn = get_fn(kind, V.ARR, gen=True)
                xs = [V.int(f"{t}xa", 0), V.int(f"{t}xb", 0)]
                g = fn(V.arr(xs), V.int(f"{t}n", -2), lambda body=body, t=t: run_ops(body, t))
                do_observe(t + "_after_creation")
                # the generator body runs at next(): in the *caller's* context, whatever that is
                next(g)
                g.close()
                V.reach("gen")
            elif op[0] == "coro":
                _, kind = op
                fn = get_fn(kind, V.ARR, coro=True)
                xs = [V.int(f"{t}xa", 0), V.int(f"{t}xb", 0)]
                c = fn(V.arr(xs), V.int(f"{t}n", -2), lambda: None)
                do_observe(t + "_after_creation")
                c.close()
                V.reach("coro")
            else:
                raise AssertionError(op)

    run_ops(inst["prog"], "p")
    # outside every context checks are stateless and nothing is bound
    impl = base.bindings()
    ok = not impl["single"] and not impl["variadic"] and not impl["pytree"]
    r1 = c01.observe_check(V.arr([2]), jt.Float[V.ARR, "a"])
    r2 = c01.observe_check(V.arr([3]), jt.Float[V.ARR, "a"])
    r3 = c01.observe_check(V.arr([3, 4]), jt.Float[V.ARR, "b a"])
    V.check("toplevel-stateless", ok and r1 == D.ACC and r2 == D.ACC and r3 == D.ACC,
            bindings=repr(impl), probes=[str(r1), str(r2), str(r3)])
    return dict(trace=trace)


def _key(inst, label, vals, info):
    return f"{label}|{inst['prog']!r}"


harness, concrete_run, replay, finding_key = base.make_api(scenario, _key)
