"""C13 -- type-check errors are raised iff violated and describe the failure truthfully.

Real code executed symbolically: wrapped_fn_impl's two error paths, _get_problem_arg,
shape_str(memos), push_shape_memo's `memos`, the rollback in the instance checks -- through
real typeguard / beartype.  Shapes are symbolic, so which parameter fails (or the return
value) and what had been bound before is chosen by the solver.  The message is parsed; the
binding values in it are engine tokens, hence solver terms.
Obligations per path that raises TypeCheckError:
  is-typeerror, names-function, stage (parameters iff the parameters alone are unsatisfiable),
  blame (parameters before the blamed one are jointly satisfiable, adding it is not),
  bindings (listed axis bindings == reference bindings in force at detection: none missing,
  none from the failed check, values equal), cause (present iff the switch is off).
Misuse paths: AnnotationError must surface unchanged.
"""
import itertools
import random
import re

import z3

from checks import base, c01, fnlib
from spec import compare
from spec import dims as D
from spec import exists as X
from symx import core

PROPERTY = "C13"
TITLE = "Type-check errors are raised iff violated and describe the failure truthfully"

STRINGS = ["a b", "b a", "#a b", "*v a", "a *v", "*#v", "c a", "a", "b", "c", "a a", "*#v b", "*v",
           "d", "b c", "2 a", "a+1", "v *v", "*v v"]
UNIONS = [["a 3", "a b"], ["a b 2", "b a"], ["c 2", "c"], ["a *v 2", "*v a"]]
EXPR = {"a+1": "a"}


def binds(p):
    return {d["name"] for d in D.parse_ref(p) if d["kind"] == "named" and not d["bc"]}


def ok_order(params):
    seen = set()
    for p in params:
        ps = p if isinstance(p, str) else p[0]
        if ps in EXPR and EXPR[ps] not in seen:
            return False
        if isinstance(p, str):
            seen |= binds(p)
    return True


def instances(tier, seed):
    rng = random.Random(seed)
    out = []
    mr = 2
    cands = []
    for n in (2, 3):
        for t in itertools.product(STRINGS, repeat=n):
            if ok_order(t):
                cands.append((list(t), None))
                cands.append((list(t[:-1]), t[-1]))
    rng.shuffle(cands)
    ncore = 110 if tier == "quick" else 1500
    next_ = 250 if tier == "quick" else 3000
    for i, (ps, r) in enumerate(cands[: ncore + next_]):
        out.append(("core" if i < ncore else "ext",
                    dict(params=ps, ret=r, maxrank=mr, switch=i % 2, tc=("typeguard", "beartype")[(i // 2) % 2])))
    # unions whose first alternative fails after partial progress, followed by further params
    for u in UNIONS:
        for before in (None, "a", "c"):
            for after in ("a b", "c", "b", "*v"):
                ps = ([before] if before else []) + [u, after]
                # typeguard only: beartype tries the members of a union in an unspecified
                # (hash-dependent) order, so "first accepting alternative" is not defined there
                out.append(("core", dict(params=ps, ret=None, maxrank=mr, switch=0, tc="typeguard")))
                out.append(("core", dict(params=ps[:-1], ret=after, maxrank=mr, switch=1, tc="typeguard")))
    # a trailing defaulted parameter that the caller leaves unsupplied
    for ps, r in ((["a b", "c a"], None), (["a", "b", "a b"], None), (["a b", "b"], "a"), (["*v a", "a"], None)):
        for tc in ("typeguard", "beartype"):
            out.append(("core", dict(params=ps, ret=r, maxrank=mr, switch=0, tc=tc, with_default=True)))
    # f(p0, *p1, p2): annotated *args followed by a keyword-only parameter
    vk = [c for c in cands if len(c[0]) == 3 and c[1] is None][:14] + [(["a", "a", "b"], None), (["a", "a", "*v"], None),
                                                                      (["a b", "b", "b"], None), (["c", "a", "a"], None)]
    for i, (ps, r) in enumerate(vk):
        out.append(("core", dict(params=ps, ret=r, maxrank=mr, switch=i % 2, tc=("typeguard", "beartype")[(i // 2) % 2], varkw=True)))
    # a structured PyTree parameter followed by an array parameter that fails: T must be listed
    for tc in ("typeguard", "beartype"):
        for sw in (0, 1):
            out.append(("core", dict(params=["a b", "a"], ret=None, maxrank=mr, switch=sw, tc=tc, tree_first=True)))
    for tc in ("typeguard", "beartype"):
        out.append(("core", dict(params=["*#v", "tree"], ret=None, maxrank=mr, switch=0, tc=tc, tree_variadic=True)))
        # string annotations (as under `from __future__ import annotations`)
        for ps, r in ((["a b", "c a"], None), (["a", "a"], "a"), (["a b"], "b a")):
            out.append(("core", dict(params=ps, ret=r, maxrank=mr, switch=0, tc=tc, stringify=True)))
    # misuse -> AnnotationError
    for ps, r in ([["a+1"], None], [["a"], "b+1"], [["?a"], None], [["#a", "a+1"], None], [["a"], "?a"]):
        for tc in ("typeguard", "beartype"):
            out.append(("core", dict(params=ps, ret=r, maxrank=mr, switch=0, tc=tc, misuse=True)))
    out.sort(key=lambda x: x[0] != "core")
    return out


BOUNDS = dict(parameters="2..3 array parameters (+ return) over a %d-string list; unions (X|Y) whose first alternative fails late; signatures f(p0, *p1, p2) with annotated *args and a keyword-only parameter" % len(STRINGS),
              rank="0..2 per array", sizes="unbounded", typecheckers="typeguard, beartype", switch="jaxtyping_remove_typechecker_stack in {0,1}")
STUBS = c01.STUBS
ASSUMPTIONS = ["only the parts of the message the property names are compared (stage sentence, function name, blamed parameter, binding lines)",
               "blame: the blamed parameter must be unsatisfiable together with the parameters before it while those are jointly satisfiable; "
               "if that fails at a solver model, a lenient concrete re-check (unsatisfiable alone / with all others) is made before reporting",
               "PyTree parameters are covered for verdicts in C08/C16, not here",
               "union parameters only with typeguard (beartype's order of trying union members is unspecified)"]
REQUIRED_LABELS = {"is-typeerror", "names-function", "stage", "blame", "bindings", "cause", "misuse-surfaces"}
REQUIRED_WITNESS = {"TCE-params", "TCE-return", "ERR"}
BUDGET_S = {"quick": 200, "thorough": 1800}
MAX_PATHS = 20000
setup_worker = c01.setup_worker
preflight = c01.preflight

_AXIS_HDR = "The current values for each jaxtyping axis annotation are as follows."
_TREE_HDR = "The current values for each jaxtyping PyTree structure annotation are as follows."


def parse_message(msg):
    out = dict(stage=None, fn=None, blamed=None, single={}, variadic={}, pytree={}, dup=[])
    if "whilst checking the parameters of" in msg:
        out["stage"] = "parameters"
    elif "whilst checking the return value" in msg:
        out["stage"] = "return"
    m = re.search(r"whilst checking the (?:parameters|return value)\s+of ([^\n]+?)\.?\n", msg)
    if m:
        out["fn"] = m.group(1).strip()
    m = re.search(r"whilst typechecking parameter '([^']+)'", msg)
    if m:
        out["blamed"] = m.group(1)
    section = 0
    for line in msg.splitlines():
        if line.startswith(_AXIS_HDR):
            section = 1
            continue
        if line.startswith(_TREE_HDR):
            section = 2
            continue
        if section == 0 or "=" not in line:
            continue
        n, v = line.split("=", 1)
        if section == 2:
            out["pytree"][n] = v
            continue
        try:
            val = core.untoken(v)
        except Exception:
            continue
        tgt = out["variadic"] if isinstance(val, tuple) else out["single"]
        if n in tgt:
            out["dup"].append(n)
        tgt[n] = val
    return out


def desc(p):
    return ("arr", p) if isinstance(p, str) else ("union", list(p))


def oracle_step(V, d, shape, B):
    """Sequential reference semantics of one parameter check (forks in the harness for unions)."""
    kind, x = d
    if kind == "arr":
        return D.step(D.parse_ref(x), shape, B)
    for alt in x:
        st = D.step(D.parse_ref(alt), shape, B)
        if V.decide(st["strict"] == D.ACC):
            st["chosen"] = ("arr", alt)
            return st
    return dict(strict=z3.IntVal(D.REJ), R=z3.IntVal(D.REJ), E=z3.BoolVal(False), B=B)


def match_desc(d, shape, sg):
    kind, x = d
    if kind == "arr":
        return X.match(D.parse_ref(x), shape, sg)
    return z3.Or(*[X.match(D.parse_ref(a), shape, sg) for a in x])


def all_names(descs):
    lists = []
    for k, x in descs:
        lists += [D.parse_ref(x)] if k == "arr" else [D.parse_ref(a) for a in x]
    return X.names_of(lists)


_DEFAULTS = {}


def default_array(ARR):
    if ARR not in _DEFAULTS:
        from env.fakes import FakeArr
        _DEFAULTS[ARR] = FakeArr((3,), "float32") if ARR is FakeArr else base.np_array((3,))
    return _DEFAULTS[ARR]


def build_fn(inst, V):
    from typing import Union
    import jaxtyping as jt
    anns = []
    for p in inst["params"]:
        if isinstance(p, str):
            anns.append(None)
        else:
            # typing.Union: typeguard 2.13 tries the members in declaration order (it does not
            # check PEP 604 `X | Y` objects at all, so those are not used here)
            anns.append(Union[tuple(jt.Float[V.ARR, a] for a in p)])
    ps = [p if isinstance(p, str) else None for p in inst["params"]]
    if inst.get("with_default"):
        # extra last parameter `zz`-annotated with a well-typed default that is never passed
        ps = ps + ["zz"]
        anns = anns + [None]
        return fnlib.build(ps, inst["ret"], V.ARR, inst["tc"], "function", None, anns=anns,
                           defaults={len(ps) - 1: default_array(V.ARR)})
    return fnlib.build(ps, inst["ret"], V.ARR, inst["tc"], "varargs-kw" if inst.get("varkw") else "function", None, anns=anns,
                       stringify=bool(inst.get("stringify")))


_union_cache = {}


def scenario_tree(inst, V):
    """f(t: PyTree[Float[A,'a b'],'T'], y: Float[A,'a']): when y fails, the message lists a, b and T"""
    import jaxtyping as jt
    A = V.ARR
    key = ("tree", A, inst["tc"])
    if key not in _union_cache:
        _union_cache[key] = fnlib.build([None, "a"], None, A, inst["tc"], "function", None,
                                        anns=[jt.PyTree[jt.Float[A, "a b"], "T"], None])
    fn, pn = _union_cache[key]
    l0 = [V.int("t0", 0), V.int("t1", 0)]
    l1 = [V.int("t2", 0), V.int("t3", 0)]
    ys = [V.int("y0", 0)]
    tree = (V.arr(l0), [V.arr(l1)])
    jt.config.update("jaxtyping_remove_typechecker_stack", bool(inst["switch"]))
    try:
        kind, res = fnlib.call(fn, pn, [tree, V.arr(ys)], "pos")
    finally:
        jt.config.update("jaxtyping_remove_typechecker_stack", False)
    B = D.Bindings()
    ok_tree = True
    for sh in (l0, l1):
        st = D.step(D.parse_ref("a b"), [core.lift(x) for x in sh], B)
        if V.decide(st["strict"] == D.ACC):
            B = st["B"]
        else:
            ok_tree = False
            break
    if kind != "TCE":
        sty = D.step(D.parse_ref("a"), [core.lift(x) for x in ys], B) if ok_tree else None
        V.check("verdict-class", kind == "OK" and ok_tree and V.decide(sty["strict"] == D.ACC), verdict=kind)
        return dict(verdict=kind)
    info = parse_message(str(res))
    V.reach("TCE-params")
    V.check("stage", info["stage"] == "parameters", said=info["stage"])
    if ok_tree:
        V.check("blame", info["blamed"] == "p1", blamed=info["blamed"])
        compare.check_bindings(V, "bindings", dict(single=info["single"], variadic=info["variadic"]), B, tree=True)
        V.check("structure-listed", sorted(info["pytree"]) == ["T"], listed=sorted(info["pytree"]))
    else:
        V.check("blame", info["blamed"] == "p0", blamed=info["blamed"])
        V.check("structure-listed", sorted(info["pytree"]) == [], listed=sorted(info["pytree"]))
        compare.check_bindings(V, "bindings", dict(single=info["single"], variadic=info["variadic"]), D.Bindings(), tree=True)
    V.check("cause", (res.__cause__ is None) == bool(inst["switch"]))
    return dict(verdict="TCE", blamed=info["blamed"], pytree=sorted(info["pytree"]))


def scenario_tree_variadic(inst, V):
    """f(x: Float[A,'*#v'], t: PyTree[Float[A,'*#v']]): an earlier leaf may widen v before a later
    leaf fails; the message must list v as it was before the failed tree check."""
    import jaxtyping as jt
    A = V.ARR
    key = ("treevar", A, inst["tc"])
    if key not in _union_cache:
        _union_cache[key] = fnlib.build(["*#v", None], None, A, inst["tc"], "function", None,
                                        anns=[None, jt.PyTree[jt.Float[A, "*#v"]]])
    fn, pn = _union_cache[key]
    xs, l0, l1 = [V.int("x0", 0)], [V.int("l0", 0)], [V.int("l1", 0)]
    kind, res = fnlib.call(fn, pn, [V.arr(xs), [V.arr(l0), V.arr(l1)]], "pos")
    B = D.step(D.parse_ref("*#v"), [core.lift(x) for x in xs], D.Bindings())["B"]
    cur, ok = B, True
    for sh in (l0, l1):
        st = D.step(D.parse_ref("*#v"), [core.lift(x) for x in sh], cur)
        if V.decide(st["strict"] == D.ACC):
            cur = st["B"]
        else:
            ok = False
            break
    if kind != "TCE":
        V.check("verdict-class", kind == "OK" and ok, verdict=kind)
        return dict(verdict=kind)
    info = parse_message(str(res))
    V.reach("TCE-params")
    V.check("stage", info["stage"] == "parameters" and not ok, said=info["stage"])
    V.check("blame", info["blamed"] == "p1", blamed=info["blamed"])
    compare.check_bindings(V, "bindings", dict(single=info["single"], variadic=info["variadic"]), B, tree_variadic=True)
    return dict(verdict="TCE", variadic=info["variadic"])


def scenario(inst, V):
    import jaxtyping as jt
    if inst.get("tree_first"):
        return scenario_tree(inst, V)
    if inst.get("tree_variadic"):
        return scenario_tree_variadic(inst, V)
    params, ret = inst["params"], inst["ret"]
    k, mr = len(params), inst["maxrank"]
    shapes = []
    for i in range(k):
        r = V.choose(f"r{i}", mr + 1)
        shapes.append([V.int(f"s{i}_{j}", 0) for j in range(r)])
    rshape = None
    if ret is not None:
        r = V.choose("rr", mr + 1)
        rshape = [V.int(f"sr_{j}", 0) for j in range(r)]
    values = [V.arr(s) for s in shapes]
    fnlib.HOLD["ret"] = V.arr(rshape) if rshape is not None else None
    fnlib.HOLD["body_exc"] = None
    ck = (repr(params), ret, V.ARR, inst["tc"], bool(inst.get("with_default")), bool(inst.get("stringify")), bool(inst.get("varkw")))
    if ck not in _union_cache:
        _union_cache[ck] = build_fn(inst, V)
    fn, pn = _union_cache[ck]
    jt.config.update("jaxtyping_remove_typechecker_stack", bool(inst["switch"]))
    try:
        kind, res = fnlib.call(fn, pn[:len(values)], values, "pos+kwlast" if inst.get("varkw") else "pos")
    finally:
        jt.config.update("jaxtyping_remove_typechecker_stack", False)
    if inst.get("misuse"):
        V.reach(kind)
        # reference: first parameter (then the return value) that is not accepted decides
        B = D.Bindings()
        seq = [(D.parse_ref(p), [core.lift(s) for s in sh]) for p, sh in zip(params, shapes)]
        if ret is not None:
            seq.append((D.parse_ref(ret), [core.lift(s) for s in rshape]))
        first = None
        for dm, sh in seq:
            st = D.step(dm, sh, B)
            if V.decide(st["strict"] == D.ACC):
                B = st["B"]
                continue
            first = st
            break
        if first is None:
            V.check("misuse-surfaces", kind == "OK", verdict=kind, expected="OK")
        else:
            got = {"TCE": D.REJ, "ERR": D.ERR}.get(kind)
            V.check("misuse-surfaces", D.verdict_allowed(first, got) if got is not None else False,
                    verdict=kind)
        return dict(verdict=kind)
    if kind != "TCE":
        V.reach(kind)
        V.check("verdict-class", kind in ("OK", "ERR"), verdict=kind)
        return dict(verdict=kind)
    e = res
    msg = str(e)
    info = parse_message(msg)
    V.check("is-typeerror", isinstance(e, TypeError) and type(e) is jt.TypeCheckError)
    V.check("names-function", info["fn"] == "verif_generated.f", got=info["fn"])
    V.check("cause", (e.__cause__ is None) == bool(inst["switch"]), cause=repr(type(e.__cause__)))
    lshapes = [[core.lift(s) for s in sh] for sh in shapes]
    descs = [desc(p) for p in params]
    names, vnames = all_names(descs + ([("arr", ret)] if ret else []))

    def unsat_with(ds, shs, tag):
        sg = X.fresh_sigma(names, vnames, mr, tag)
        cs = X.sigma_constraints(sg, mr)
        return z3.Not(z3.And(*(cs + [match_desc(d, s, sg) for d, s in zip(ds, shs)])))

    # reference sequential chain over the parameters, in signature order
    B = D.Bindings()
    chain = []  # (B before, st)
    fail_at = None
    for i, (d, sh) in enumerate(zip(descs, lshapes)):
        st = oracle_step(V, d, sh, B)
        chain.append((B, st))
        if "chosen" in st:
            # a typechecker commits to the first accepting member of a Union (no backtracking):
            # later obligations are judged against the member it committed to
            descs[i] = st["chosen"]
        if not V.decide(st["strict"] == D.ACC):
            fail_at = i
            break
        B = st["B"]
    stage = info["stage"]
    V.reach("TCE-params" if stage == "parameters" else "TCE-return")
    if stage == "parameters":
        V.check("stage", unsat_with(descs, lshapes, "st"), said="parameters")
        bl = info["blamed"]
        if bl is None or bl not in pn:
            V.check("blame", False, blamed=bl)
            return dict(verdict="TCE", stage=stage)
        i = pn.index(bl)
        # prefix satisfiable (witness from the reference chain) and prefix + blamed unsatisfiable
        ok_prefix = fail_at is not None and i <= fail_at
        cond = unsat_with(descs[: i + 1], lshapes[: i + 1], "bl")
        if ok_prefix and i > 0:
            Bi = chain[i][0]
            sg = X.sigma_from_bindings(Bi)
            cond = z3.And(cond, *[match_desc(d, s, sg) for d, s in zip(descs[:i], lshapes[:i])])
        V.check("blame", cond if ok_prefix else False, blamed=bl, ref_first_failing=fail_at)
        Bref = chain[i][0] if ok_prefix else None
    elif stage == "return":
        sg = X.sigma_from_bindings(B)
        V.check("stage", fail_at is None and True, said="return")
        if fail_at is None:
            V.check("stage", z3.And(*[match_desc(d, s, sg) for d, s in zip(descs, lshapes)]), said="return")
        Bref = B if fail_at is None else None
    else:
        V.check("stage", False, said=None)
        Bref = None
    if Bref is not None:
        V.check("bindings-unique", not info["dup"], dup=info["dup"])
        compare.check_bindings(V, "bindings", dict(single=info["single"], variadic=info["variadic"]), Bref,
                               stage=stage, blamed=info["blamed"])
    return dict(verdict="TCE", stage=stage, blamed=info["blamed"], single=info["single"],
                variadic=info["variadic"])


def _key(inst, label, vals, info):
    return f"{label}|params={inst['params']!r}|ret={inst['ret']!r}"


harness, concrete_run, replay, finding_key = base.make_api(scenario, _key)
