"""C03 -- dtype categories accept exactly the documented dtypes, on every backend.

Two layers, reported separately in the evidence.
 name layer (solver): the real isinstance path (dtype-name extraction branches for
   numpy/JAX-style `dtype.type.__name__`, TF-style `as_numpy_dtype.__name__`, string dtypes,
   torch-style repr 'lib.name'; the category lookup loop) runs on a *symbolic dtype name*
   (every character a solver variable, ASCII 32..126, length 0..20) for every exported
   category and for generated user categories (literal strings and uninterpreted patterns);
   per path z3 decides: accepted iff the name is in the documented set of the category; the
   four duck backends agree.
 bridging layer (exhaustive finite enumeration, NOT a solver verdict): the map from real
   dtype objects (NumPy scalar types incl. platform aliases, ml_dtypes, JAX arrays, tracers and
   PRNG keys, structured dtypes, TensorFlow) to names lives in C extensions; every dtype object
   x every category is enumerated, in two different orders (so that a verdict depending on
   what was checked before is seen); expected membership comes from NumPy's own abstract
   hierarchy / ml_dtypes.finfo/iinfo, not from jaxtyping's tables.
"""
import random
import re

import z3

from checks import base, c01
from symx import core, symstr as S

PROPERTY = "C03"
TITLE = "Dtype categories accept exactly the documented dtypes, on every backend"

# documented hierarchy (docs/api/array.md) ------------------------------------------------
PRECISION = {
    "UInt2": "uint2", "UInt4": "uint4", "UInt8": "uint8", "UInt16": "uint16", "UInt32": "uint32", "UInt64": "uint64",
    "Int2": "int2", "Int4": "int4", "Int8": "int8", "Int16": "int16", "Int32": "int32", "Int64": "int64",
    "Float8e4m3b11fnuz": "float8_e4m3b11fnuz", "Float8e4m3fn": "float8_e4m3fn", "Float8e4m3fnuz": "float8_e4m3fnuz",
    "Float8e5m2": "float8_e5m2", "Float8e5m2fnuz": "float8_e5m2fnuz",
    "BFloat16": "bfloat16", "Float16": "float16", "Float32": "float32", "Float64": "float64",
    "Complex64": "complex64", "Complex128": "complex128",
}
_U = ["uint2", "uint4", "uint8", "uint16", "uint32", "uint64"]
_I = ["int2", "int4", "int8", "int16", "int32", "int64"]
_F = ["float8_e4m3b11fnuz", "float8_e4m3fn", "float8_e4m3fnuz", "float8_e5m2", "float8_e5m2fnuz", "bfloat16",
      "float16", "float32", "float64"]
_C = ["complex64", "complex128"]
DOC = {
    "Bool": ["bool", "bool_"], "UInt": _U, "Int": _I, "Integer": _U + _I, "Float": _F, "Complex": _C,
    "Inexact": _F + _C, "Real": _F + _U + _I, "Num": _U + _I + _F + _C, "Key": ["prng_key"], "Shaped": None,
}
for k, v in PRECISION.items():
    DOC[k] = [v]

USERCATS = [
    ("U1", ["my_dtype"]), ("U2", ["uint8", "uint16"]), ("U3", ["a", "ab", "abc"]),
    ("P1", ["@pat0"]), ("P2", ["lit", "@pat0"]), ("P3", ["@pat0", "@pat1", "zz"]),
]
DUCKS = ["str", "torch", "numpy", "tf"]
GEN_USERCATS = {}


def instances(tier, seed):
    out = []
    for cat in DOC:
        for duck in DUCKS:
            out.append(("core", dict(kind="name", cat=cat, duck=duck, maxlen=20)))
    for cat, _ in USERCATS:
        for duck in ("str", "torch"):
            out.append(("core", dict(kind="user", cat=cat, duck=duck, maxlen=8)))
    if tier == "thorough":
        rng = random.Random(seed)
        names = ["float32", "f", "ff", "int", "uint8", "u", "", "a.b", "x y", "bool_"]
        for i in range(40):
            members = []
            for _ in range(rng.randrange(1, 5)):
                members.append(f"@pat{rng.randrange(3)}" if rng.random() < 0.4 else rng.choice(names))
            GEN_USERCATS[f"G{i}"] = members
            for duck in DUCKS:
                out.append(("core", dict(kind="user", cat=f"G{i}", duck=duck, maxlen=9, members=members)))
    out.append(("core", dict(kind="userreal")))
    out.append(("core", dict(kind="bridge", order="forward")))
    out.append(("core", dict(kind="bridge", order="reverse")))
    out.append(("core", dict(kind="bridge", order="shuffled")))
    return out


BOUNDS = dict(name_layer="dtype name = symbolic string, every character in ASCII 32..126, length 0..20 (longest documented name: 18); all %d exported categories x 4 duck backends; 6 generated user categories (literals and uninterpreted patterns)" % len(DOC),
              bridging_layer="exhaustive finite enumeration (see coverage.bridging_table): every NumPy scalar type incl. platform aliases, every ml_dtypes type, JAX arrays/tracers/PRNG keys, a structured dtype, TensorFlow dtypes, each against every exported category, in 3 orders")
STUBS = ["duck arrays carrying a symbolic dtype name (string / torch-style repr / numpy-style dtype.type.__name__ / TF-style as_numpy_dtype.__name__)",
         "re.Pattern members of user categories -> StubPattern: match() is an uninterpreted predicate of the name (any regex engine satisfies that)"]
ASSUMPTIONS = ["the documented sets are transcribed from docs/api/array.md and the exported precision class names",
               "bridging layer is enumeration of a finite table, not a solver verdict; torch and mlx arrays are not covered (torch not installed)",
               "expected membership of a real dtype: NumPy abstract hierarchy (np.issubdtype) / ml_dtypes.finfo|iinfo / jax key dtypes"]
REQUIRED_LABELS = {"accept-iff-documented", "user-category", "bridge"}
REQUIRED_WITNESS = {"name-acc", "name-rej", "bridge-done"}
BUDGET_S = {"quick": 150, "thorough": 600}
setup_worker = c01.setup_worker
preflight = c01.preflight


class _Named:
    def __init__(self, name):
        self.__name__ = name


class DuckStr:
    """dtype is the string itself"""
    shape = ()

    def __init__(self, name):
        self.dtype = name


class _TorchDtype:
    def __init__(self, name):
        self._n = name

    def __repr__(self):
        return "torch." + self._n


class DuckTorch:
    shape = ()

    def __init__(self, name):
        self.dtype = _TorchDtype(name)


class _NpDtype:
    def __init__(self, name):
        self.type = _Named(name)

    def __str__(self):
        return "duckdtype"


class DuckNumpy:
    shape = ()

    def __init__(self, name):
        self.dtype = _NpDtype(name)


class _TfDtype:
    def __init__(self, name):
        self.as_numpy_dtype = _Named(name)


class DuckTf:
    shape = ()

    def __init__(self, name):
        self.dtype = _TfDtype(name)


DUCKCLS = {"str": DuckStr, "torch": DuckTorch, "numpy": DuckNumpy, "tf": DuckTf}


class StubPattern:
    """stands in for re.Pattern: match(name) is an uninterpreted predicate (recorded)"""

    def __init__(self, idx):
        self.idx = idx

    def match(self, s):
        # an arbitrary but functional predicate of the (one) string under test: a Bool variable
        b = core.sym_bool(f"pat{self.idx}_matches") if core.space() is not None and not StubPattern.concrete \
            else StubPattern.concrete_vals.get(f"pat{self.idx}_matches", False)
        StubPattern.used[self.idx] = b
        return True if bool(b) else None

    used = {}
    concrete = False
    concrete_vals = {}


_usercats = {}


def user_category(name, members):
    import jaxtyping as jt
    import jaxtyping._array_types as at
    if name in _usercats:
        return _usercats[name]
    ms = [StubPattern(int(m[4:])) if m.startswith("@pat") else m for m in members]

    class Cat(jt.AbstractDtype):
        dtypes = [m for m in members if not m.startswith("@pat")] or ["placeholder"]
    # install the pattern members behind AbstractDtype's back: it only accepts str / re.Pattern,
    # and the instance check dispatches on type(cls_dtype) is re.Pattern
    Cat.dtypes = tuple(ms)
    Cat.__name__ = name
    _usercats[name] = Cat
    return Cat


def eq_name(s, lit):
    """z3 Bool: symbolic/concrete string equals literal"""
    r = (s == lit)
    if isinstance(r, bool):
        return z3.BoolVal(r)
    return r.e


def scenario(inst, V):
    import jaxtyping as jt
    import jaxtyping._array_types as at
    kind = inst["kind"]
    if kind == "bridge":
        return scenario_bridge(inst, V)
    if kind == "userreal":
        return scenario_userreal(inst, V)
    n = V.choose("len", inst["maxlen"] + 1)
    name = V.str("d", n, None, 32, 126)
    duck = DUCKCLS[inst["duck"]]
    if kind == "name":
        cat = getattr(jt, inst["cat"])
        ann = cat[duck, "..."]
        got = c01.observe_check(duck(name), ann)
        doc = DOC[inst["cat"]]
        eff = name
        if inst["duck"] == "torch":
            # torch-style: the name is what follows the last '.' of repr(dtype)
            eff = ("torch." + name).rsplit(".", 1)[-1]
        elif inst["duck"] == "numpy" and bool(name == "void"):
            eff = "duckdtype"   # numpy-style 'void' means a structured dtype: str(dtype) is used
        exp = z3.BoolVal(True) if doc is None else z3.Or(*[eq_name(eff, d) for d in doc])
        V.reach("name-acc" if got == 0 else "name-rej")
        V.check("accept-iff-documented", exp == (got == 0) if got in (0, 1) else False, got=str(got),
                cat=inst["cat"], duck=inst["duck"])
        return dict(got=str(got))
    # user categories with uninterpreted patterns: patch the type test for re.Pattern
    members = inst.get("members") or dict(USERCATS)[inst["cat"]]
    Cat = user_category(inst["cat"], members)
    import re as real_re

    class _Re:
        Pattern = StubPattern

        def __getattr__(self, k):
            return getattr(real_re, k)
    saved_globals = {k: v for k, v in vars(at).items() if v is real_re or v is real_re.Pattern}
    for k, v in saved_globals.items():
        setattr(at, k, _Re() if v is real_re else StubPattern)
    StubPattern.used = {}
    StubPattern.concrete = V.concrete
    StubPattern.concrete_vals = getattr(V, "vals", {})
    eff = ("torch." + name).rsplit(".", 1)[-1] if inst["duck"] == "torch" else name
    try:
        got = c01.observe_check(duck(name), Cat[duck, "..."])
    finally:
        for k, v in saved_globals.items():
            setattr(at, k, v)
    terms = []
    for m in members:
        if m.startswith("@pat"):
            idx = int(m[4:])
            b = StubPattern.used.get(idx)
            # a pattern that was never consulted: an earlier member already matched
            terms.append(None if b is None else (b.e if isinstance(b, core.SymBool) else z3.BoolVal(bool(b))))
        else:
            terms.append(eq_name(eff, m))
    # first-match semantics == plain disjunction; patterns not consulted are unconstrained
    known = [t for t in terms if t is not None]
    if got == 0:
        V.check("user-category", z3.Or(*known) if known else False, got="ACC", cat=inst["cat"])
    elif got == 1:
        V.check("user-category", z3.And(*[z3.Not(t) for t in known]) if len(known) == len(terms) else False,
                got="REJ", cat=inst["cat"], consulted=len(known))
    else:
        V.check("user-category", False, got=str(got))
    return dict(got=str(got))


def scenario_userreal(inst, V):
    """User categories declared in each documented way (a string, a compiled regex, a list /
    tuple mixing both) with *real* regexes; names from a concrete menu (a C regex engine cannot
    run on symbolic strings): accepted iff equal to a string member or matched by a pattern."""
    import jaxtyping as jt
    forms = [
        ("bare-string", "my_dtype"),
        ("bare-regex", re.compile(r"x\d+$")),
        ("list", ["a", re.compile(r"b+$"), "c"]),
        ("tuple", (re.compile(r"^u?int8$"), re.compile(r"^float\d+$"))),
        ("two-regex-first-matches", [re.compile(r"float\d+$"), re.compile(r"int\d+$")]),
        ("anchoring", [re.compile(r"abc")]),   # re.match anchors at the start only
    ]
    names = ["my_dtype", "my_dtyp", "x1", "x12", "xx1", "x1y", "a", "b", "bbb", "bab", "c", "d", "int8", "uint8", "uint88",
             "float32", "float", "int16", "abc", "abcd", "zabc", ""]
    fi = V.choose("form", len(forms))
    label, decl = forms[fi]
    ni = V.choose("name", len(names))
    name = names[ni]

    class Cat(jt.AbstractDtype):
        dtypes = decl
    members = [decl] if isinstance(decl, (str, re.Pattern)) else list(decl)
    want = any((m == name) if isinstance(m, str) else bool(m.match(name)) for m in members)
    res = {}
    for dk in ("str", "torch", "numpy", "tf"):
        got = c01.observe_check(DUCKCLS[dk](name), Cat[DUCKCLS[dk], "..."])
        res[dk] = str(got)
        eff_want = want if not (dk == "numpy" and name == "void") else False
        V.check("user-category", got == (0 if eff_want else 1), form=label, name=name, duck=dk, got=str(got), expected=eff_want)
    return dict(form=label, name=name, res=res)


# ---- bridging layer ----------------------------------------------------------------------
def real_dtype_table():
    """(label, array-like, expected set of documented name categories)"""
    import numpy as np
    import ml_dtypes
    import jax
    import jax.numpy as jnp
    rows = []

    def cats_for_numpy(t):
        dt = np.dtype(t)
        out = set()
        if np.issubdtype(dt, np.bool_):
            out |= {"Bool"}
        if np.issubdtype(dt, np.unsignedinteger):
            out |= {"UInt", "Integer", "Real", "Num", f"UInt{dt.itemsize * 8}"}
        if np.issubdtype(dt, np.signedinteger):
            out |= {"Int", "Integer", "Real", "Num", f"Int{dt.itemsize * 8}"}
        if np.issubdtype(dt, np.floating):
            out |= {"Float", "Inexact", "Real", "Num"}
            if dt.itemsize in (2, 4, 8):
                out |= {f"Float{dt.itemsize * 8}"}
        if np.issubdtype(dt, np.complexfloating):
            out |= {"Complex", "Inexact", "Num"}
            if dt.itemsize in (8, 16):
                out |= {f"Complex{dt.itemsize * 8}"}
        return out | {"Shaped"}

    seen = set()
    for nm in sorted(set(np.sctypeDict) | {"longlong", "ulonglong", "intc", "uintc", "longdouble", "clongdouble",
                                           "half", "single", "double", "short", "ushort", "byte", "ubyte",
                                           "int_", "uint", "intp", "uintp", "csingle", "cdouble", "bool_"}, key=str):
        try:
            t = np.dtype(nm).type if isinstance(nm, str) else None
        except TypeError:
            continue
        if t is None or t in seen:
            continue
        if not (np.issubdtype(t, np.number) or np.issubdtype(t, np.bool_)):
            continue
        if t in (np.timedelta64, np.datetime64):
            continue  # time types (NumPy files timedelta64 under signedinteger): outside the hierarchy
        seen.add(t)
        rows.append((f"numpy:{t.__name__}", np.zeros((), dtype=t), cats_for_numpy(t)))
    ml = {"bfloat16": "BFloat16", "float8_e4m3b11fnuz": "Float8e4m3b11fnuz", "float8_e4m3fn": "Float8e4m3fn",
          "float8_e4m3fnuz": "Float8e4m3fnuz", "float8_e5m2": "Float8e5m2", "float8_e5m2fnuz": "Float8e5m2fnuz",
          "int2": "Int2", "int4": "Int4", "uint2": "UInt2", "uint4": "UInt4"}
    for nm in sorted(n for n in dir(ml_dtypes) if isinstance(getattr(ml_dtypes, n), type)
                     and issubclass(getattr(ml_dtypes, n), np.generic)):
        t = getattr(ml_dtypes, nm)
        try:
            arr = np.zeros((), dtype=t)
        except Exception:
            continue
        exp = {"Shaped"}
        is_float = True
        try:
            ml_dtypes.finfo(t)
        except Exception:
            is_float = False
        if is_float:
            exp |= {"Float", "Inexact", "Real", "Num"}
        else:
            info = ml_dtypes.iinfo(t)
            exp |= ({"Int"} if info.min < 0 else {"UInt"}) | {"Integer", "Real", "Num"}
        if nm in ml:
            exp |= {ml[nm]}
        rows.append((f"ml_dtypes:{nm}", arr, exp))
    # JAX
    for nm in ("float32", "int32", "uint8", "bool_", "bfloat16", "float16", "complex64", "int8", "uint32"):
        a = jnp.zeros((), dtype=getattr(jnp, nm))
        rows.append((f"jax:{nm}", a, cats_for_numpy(getattr(jnp, nm)) if nm != "bfloat16" else
                     {"Shaped", "Float", "Inexact", "Real", "Num", "BFloat16"}))
    rows.append(("jax:key", jax.random.key(0), {"Shaped", "Key"}))
    rows.append(("jax:oldkey", jax.random.PRNGKey(0), cats_for_numpy(np.uint32)))
    # structured dtype: in no numeric category
    rows.append(("numpy:struct", np.zeros((), dtype=[("a", np.uint8), ("b", np.int8)]), {"Shaped"}))
    return rows


def tf_rows():
    try:
        import tensorflow as tf
    except Exception:
        return []
    rows = []
    for nm, exp in (("float32", {"Float", "Inexact", "Real", "Num", "Float32"}),
                    ("int32", {"Int", "Integer", "Real", "Num", "Int32"}),
                    ("uint8", {"UInt", "Integer", "Real", "Num", "UInt8"}),
                    ("bool", {"Bool"}), ("complex64", {"Complex", "Inexact", "Num", "Complex64"}),
                    ("float16", {"Float", "Inexact", "Real", "Num", "Float16"}),
                    ("bfloat16", {"Float", "Inexact", "Real", "Num", "BFloat16"})):
        rows.append((f"tf:{nm}", tf.zeros((), dtype=getattr(tf, nm)), exp | {"Shaped"}))
    return rows


_BRIDGE_RESULT = {}


def scenario_bridge(inst, V):
    """Concrete enumeration (both in the symbolic and the concrete run: no symbolic inputs)."""
    import jaxtyping as jt
    import jax
    from typing import Any
    rows = real_dtype_table() + tf_rows()
    if inst["order"] == "reverse":
        rows = rows[::-1]
    elif inst["order"] == "shuffled":
        random.Random(7).shuffle(rows)
    bad = []
    n = 0
    for label, arr, exp in rows:
        for cat in DOC:
            ann = getattr(jt, cat)[Any, "..."]
            got = isinstance(arr, ann)
            want = cat in exp
            n += 1
            if got != want:
                bad.append((label, cat, got, want))
    # tracers carry the same dtype: verdict inside jit equals eager
    tr_bad = []

    def probe(x):
        tr_bad.extend([c for c in ("Float", "Int", "Float32", "Shaped", "Bool") if isinstance(x, getattr(jt, c)[Any, "..."]) !=
                       (c in ("Float", "Float32", "Shaped"))])
        return x
    jax.jit(probe)(jax.numpy.zeros((2,), dtype="float32"))
    jax.eval_shape(probe, jax.numpy.zeros((2,), dtype="float32"))
    V.reach("bridge-done")
    known = [b for b in bad if _known_bridge(b)]
    new = [b for b in bad if not _known_bridge(b)]
    _BRIDGE_RESULT[inst["order"]] = dict(pairs=n, rows=len(rows), disagreements=bad)
    V.check("bridge", not new and not tr_bad, disagreements=new[:12], tracer=tr_bad, order=inst["order"])
    V.check("bridge-platform-alias", not known, disagreements=known[:12], order=inst["order"])
    return dict(pairs=n, rows=len(rows), bad=[list(b) for b in bad][:40])


def _known_bridge(b):
    label, cat, got, want = b
    # see known_findings.json: platform-alias scalar types and dtypes outside jaxtyping's tables
    return label in ("numpy:longlong", "numpy:ulonglong", "numpy:longdouble", "numpy:clongdouble") or \
        (label.startswith("ml_dtypes:") and want and not got)


def extra_evidence(tier, results):
    for r in results:
        if r.get("inst", {}).get("kind") == "bridge":
            pass
    return dict(bridging_table=dict(exhaustive=True, technique="exhaustive finite enumeration (not a solver verdict)",
                                    note="pairs/disagreements are in the samples / replay files of the 'bridge' instances"))


def _key(inst, label, vals, info):
    if label == "bridge-platform-alias":
        return "bridge-platform-alias"
    return f"{label}|{sorted((k, repr(v)) for k, v in inst.items())!r}"


harness, concrete_run, replay, finding_key = base.make_api(scenario, _key)
