"""C16 -- '?' axes are per-leaf-position axes of exactly one structured PyTree.

Real code executed symbolically: _MetaPyTree._check's leaf loop (set/clear_treepath_memo),
get_treepath_memo in _check_dims/_check_shape, the memo keys built from the leaf position.
Sequence per instance, in one context: tree t1 against PyTree[L,'T'], a plain-axis array check
using the same axis name, tree t2 against PyTree[L,'T'] (same or different skeleton), then
the bindings are observed.  All leaf shapes are solver variables.  Oracle: spec.trees with
keys (structure, leaf index, name) -- independent per position, shared across trees,
disjoint from the plain name.  Misuse forms must raise AnnotationError; proper use never.
"""
import random

from checks import base, c01, c08
from spec import compare, dims as D, trees as T
from symx import core

PROPERTY = "C16"
TITLE = "'?' axes are per-leaf-position axes of exactly one structured PyTree"

SPECS = [("arr", "?a"), ("arr", "*?v"), ("arr", "?a b"), ("arr", "?a ?a"), ("arr", "#?a"),
         ("union", [("arr", "?a 3"), ("arr", "?a b")]), ("tup", [("arr", "?a"), ("arr", "?a b")]),
         ("tree", ("arr", "?a")), ("tree", ("arr", "b ?a")), ("arr", "?a *?v"), ("arr", "a ?a"), ("arr", "*#?v"),
         ("tup", [("tree", ("arr", "?a")), ("arr", "?a b")])]
SKELS = ["t1", "t2", "nest", "dict", "none", "node", "nt"]
OTHER = {"t1": "t2", "t2": "nest", "nest": "t2", "dict": "nest", "none": "nt", "node": "t2", "nt": "node"}


def instances(tier, seed):
    rng = random.Random(seed)
    out = []
    for spec in SPECS:
        for sk in SKELS:
            if spec == ("arr", "*#?v") and sk not in ("t1", "t2", "none"):
                continue  # broadcasting forks per axis: keep the trees small
            for second in ("same", "other"):
                g = "core" if (tier == "thorough" or second == "same" or rng.random() < 0.3) else "ext"
                out.append((g, dict(kind="use", spec=spec, skel=sk, second=second, maxrank=2,
                                    pre=rng.choice([None, None, "unbound-symbolic", "double-structured", "unbound-structure"]))))
    for spec in (("arr", "?a"), ("arr", "*?v"), ("arr", "?a b")):
        for sk in ("t2", "dict"):
            out.append(("core", dict(kind="use", spec=spec, skel=sk, second="same", maxrank=2, pre=None, ws=True)))
    for form in ("bare-array", "structureless", "double-structured", "double-structured-deep", "union-outside",
                 "double-structured-same", "double-structured-same-single"):
        for dims in ("?a", "*?v", "?a b"):
            for pre in (None, "unbound-symbolic", "double-structured"):
                out.append(("core", dict(kind="misuse", form=form, dims=dims, pre=pre)))
    out.sort(key=lambda x: x[0] != "core")
    return out


BOUNDS = dict(skeletons=SKELS, leaf_types=[repr(s) for s in SPECS], leaf_rank="as C08 (0..2 / natural rank), sizes unbounded",
              prelude="optionally an earlier structured-PyTree check that raises in its leaf loop (unbound symbolic axis / doubly structured / unbound structure name)", sequence="t1 : PyTree[L,'T'];  x : Float[A,'a'] and Float[A,'*v'];  t2 : PyTree[L,'T'] (same / different skeleton)",
              misuse=["bare-array", "structureless", "double-structured", "double-structured-deep", "union-outside"])
STUBS = c01.STUBS
ASSUMPTIONS = ["tree skeletons are selectors; jax tree_flatten / PyTreeDef equality run concretely",
               "the printed binding name '(Leaf i in structure T) a' is parsed to recover (T, i, a); if the format is not recognised the name is compared as an ordinary axis name"]
REQUIRED_LABELS = {"verdict-t1", "verdict-plain", "verdict-t2", "bindings", "misuse-raises"}
REQUIRED_WITNESS = {"t1-ACC", "t2-ACC", "t2-REJ", "misuse-ERR"}
BUDGET_S = {"quick": 200, "thorough": 1500}
setup_worker = c08.setup_worker
preflight = c01.preflight


def leaves_for(inst, V, tag, n, spec):
    fake = dict(kinds=["arr"] * n, maxrank=inst["maxrank"], spec=spec)
    opts = c08.rank_options(fake)
    out = []
    for i in range(n):
        if spec[0] == "tup":
            first = V.arr([V.int(f"{tag}{i}_a", 0)])
            if spec[1][0][0] == "tree":
                first = [first, (V.arr([V.int(f"{tag}{i}_a2", 0)]),)]
            out.append((first, V.arr([V.int(f"{tag}{i}_b", 0), V.int(f"{tag}{i}_c", 0)])))
            continue
        r = opts[V.choose(f"{tag}r{i}", len(opts))]
        leaf = V.arr([V.int(f"{tag}{i}_{j}", 0) for j in range(r)])
        if spec[0] == "tree" and i == 0:
            # the nested structure-less PyTree gets a small subtree at the first position
            leaf = [leaf, (V.arr([V.int(f"{tag}{i}_x{j}", 0) for j in range(r)]),)]
        out.append(leaf)
    return out


def raising_prelude(inst, V):
    """An earlier structured-PyTree check that raises in the middle of its leaf loop (it binds
    nothing, so the reference state is unaffected)."""
    import jaxtyping as jt
    from jaxtyping import PyTree
    pre = inst.get("pre")
    if pre is None:
        return
    x = V.arr([V.int("z0", 0), V.int("z1", 0)])
    y = V.arr([V.int("z2", 0), V.int("z3", 0)])
    if pre == "unbound-symbolic":
        got = c08.observe((x, y), PyTree[jt.Float[V.ARR, "?a zz+1"], "P"])
    elif pre == "double-structured":
        got = c08.observe((x, y), PyTree[PyTree[jt.Float[V.ARR, "?a _"], "Q"], "P"])
    else:
        got = c08.observe((x, (y,)), PyTree[jt.Float[V.ARR, "?a _"], "P NOPE"])
    V.check("prelude-raises", got == "ERR", got=got, pre=pre)


def scenario(inst, V):
    import jaxtyping as jt
    from jaxtyping import jaxtyped, PyTree
    T.register_node()
    if inst["kind"] == "misuse":
        return scenario_misuse(inst, V)
    spec = c08._tuplify(inst["spec"])
    ann = PyTree[T.to_ann(spec, V.ARR), "T"]
    ann_second = ann
    if inst.get("ws"):
        # surrounding whitespace in the structure string is insignificant: ' T' / 'T ' are 'T'
        ann = PyTree[T.to_ann(spec, V.ARR), " T"]
        ann_second = PyTree[T.to_ann(spec, V.ARR), "T  "]
    n1, mk1 = c08.SKEL[inst["skel"]]
    sk2 = inst["skel"] if inst["second"] == "same" else OTHER[inst["skel"]]
    n2, mk2 = c08.SKEL[sk2]
    t1 = mk1(leaves_for(inst, V, "u", n1, spec))
    obs = {}
    with jaxtyped("context"):
        raising_prelude(inst, V)
        B = D.Bindings()
        got = c08.observe(t1, ann)
        exp, B = T.tree_check(V, spec, t1, "T", B, V.ARR)
        V.check("verdict-t1", got == exp, got=got, expected=exp)
        V.reach("t1-" + got)
        if got != "ACC" or exp != "ACC":
            return dict(t1=got)
        # plain axes with the same names never interact with the '?' ones
        for dims, shape in (("a", [V.int("pa", 0)]), ("*v", [V.int("pv", 0)])):
            r = c01.observe_check(V.arr(shape), jt.Float[V.ARR, dims])
            st = D.step(D.parse_ref(dims), [core.lift(s) for s in shape], B)
            V.check("verdict-plain", D.verdict_allowed(st, r) if r in (0, 1, 2) else False, got=str(r), dims=dims)
            if r == D.ACC:
                B = st["B"]
        t2 = mk2(leaves_for(inst, V, "w", n2, spec))
        got2 = c08.observe(t2, ann_second)
        if T.structure_sig(spec, t1, V.ARR) == T.structure_sig(spec, t2, V.ARR):
            exp2, B2 = T.tree_check(V, spec, t2, "T", B, V.ARR)
        else:
            exp2, B2 = "REJ", B
        V.check("verdict-t2", got2 == exp2, got=got2, expected=exp2)
        V.reach("t2-" + got2)
        post = base.bindings()
        if got2 == exp2:
            compare.check_bindings(V, "bindings", post, B2)
        obs = dict(t1=got, t2=got2, names=sorted(post["single"]))
    return obs


def scenario_misuse(inst, V):
    import typing
    import jaxtyping as jt
    from jaxtyping import jaxtyped, PyTree
    A = jt.Float[V.ARR, inst["dims"]]
    x = V.arr([V.int("m0", 0), V.int("m1", 0)][: len(inst["dims"].split())] if "*" not in inst["dims"] else [V.int("m0", 0)])
    y = V.arr([V.int("n0", 0), V.int("n1", 0)][: len(inst["dims"].split())] if "*" not in inst["dims"] else [V.int("n0", 0)])
    form = inst["form"]
    with jaxtyped("context"):
        raising_prelude(inst, V)
        if form == "bare-array":
            got = c08.observe(x, A)
        elif form == "structureless":
            got = c08.observe((x, y), PyTree[A])
        elif form == "double-structured":
            got = c08.observe((x, y), PyTree[PyTree[A, "S"], "T"])
        elif form == "double-structured-same":
            got = c08.observe((x, y), PyTree[PyTree[A, "T"], "T"])
        elif form == "double-structured-same-single":
            got = c08.observe(x, PyTree[PyTree[A, "T"], "T"])
        elif form == "double-structured-deep":
            got = c08.observe([(x, y), (y,)], PyTree[PyTree[PyTree[A], "S"], "T"])
        elif form == "union-outside":
            got = c08.observe(x, typing.Union[A, int]) if False else c08.observe((x,), PyTree[typing.Union[A, int]])
        post = base.bindings()
    V.reach("misuse-" + got)
    if form == "double-structured-same":
        # the same structure name at both levels: the inner check binds T to the structure of the
        # whole tree, which the outer check (one leaf) then contradicts -- a plain rejection is
        # legitimate here; what must not happen is acceptance
        V.check("misuse-raises", got in ("ERR", "REJ"), got=got, form=form)
    else:
        V.check("misuse-raises", got == "ERR", got=got, form=form)
    V.check("misuse-binds-nothing", not post["single"] and not post["variadic"], post=repr(post))
    return dict(got=got)


def _key(inst, label, vals, info):
    return f"{label}|{sorted((k, repr(v)) for k, v in inst.items())!r}"


harness, concrete_run, replay, finding_key = base.make_api(scenario, _key)
