"""C15 -- nested, union, TypeVar and scalar annotations obey the documented laws.

Real code executed: _MetaAbstractDtype.__getitem__ / _make_array / _make_array_cached (nesting
branch: dtype intersection, dims concatenation, index_variadic arithmetic; union unpacking;
TypeVar resolution; Python scalar handling via _check_scalar), then the instance checks.
Both sides of each law are built with the real API and probed with the *same symbolic array*
(shape: solver variables, rank a selector; dtype name: selector from a 14-name menu) from
equal symbolic prior states; verdicts and resulting bindings must coincide (solver queries).
Build-time outcomes (annotation / the scalar type itself / ValueError) are compared with the
documented table.
"""
import itertools
import random
import typing

import z3

from checks import base, c01
from checks.c03 import DOC
from env.fakes import FakeArr, FakeArr2
from spec import compare, dims as D
from symx import core

PROPERTY = "C15"
TITLE = "Nested, union, TypeVar and scalar annotations obey the documented laws"

CATS = list(DOC)
DIMS = ["", "a", "a b", "#a", "*v", "... a", "a *v", "3 a", "b a", "*#v a", "...", "_ a"]
DTYPES = ["float32", "float64", "bfloat16", "int8", "int32", "uint8", "uint64", "bool", "bool_", "complex64",
          "complex128", "prng_key", "float8_e5m2", "weird"]
SCALARS = ["bool", "int", "float", "complex"]


def has_multi(d):
    return any(t.startswith("*") or t == "..." or t.lstrip("#?_").startswith("*") for t in d.split())


def instances(tier, seed):
    rng = random.Random(seed)
    out = []
    pairs = list(itertools.product(CATS, repeat=2))
    rng.shuffle(pairs)
    n = 220 if tier == "quick" else len(pairs)
    for i, (c1, c2) in enumerate(pairs):
        s1, s2 = rng.choice(DIMS), rng.choice(DIMS)
        out.append(("core" if i < n else "ext", dict(kind="nest", inner=c1, outer=c2, s1=s1, s2=s2)))
    for s1, s2 in itertools.product(DIMS, repeat=2):
        out.append(("core", dict(kind="nest", inner="Float", outer=rng.choice(["Float", "Shaped", "Inexact", "Float32"]), s1=s1, s2=s2)))
    for c in ("Float", "Int8", "Shaped", "Bool"):
        for s in ("a b", "*v a", ""):
            for form in ("union", "pipe", "tv-bound", "tv-constraints", "tv-free", "union-scalar", "union3", "union-disjoint"):
                out.append(("core", dict(kind="arrtype", cat=c, s=s, form=form)))
    for c in CATS:
        for sc in SCALARS:
            for s in ("", "...", "*v", "a", "3", "*v a", "#a", "_"):
                out.append(("core", dict(kind="scalar", cat=c, scalar=sc, s=s)))
    out.append(("core", dict(kind="aliases")))
    return out


BOUNDS = dict(nesting="seeded category pairs (quick 220 of %d, thorough all) with random dim-string pairs + all %d dim-string pairs for Float-in-{Float,Shaped,Inexact,Float32}" % (len(CATS) ** 2, len(DIMS) ** 2),
              array_types="Union / X|Y / bound, constrained and free TypeVar / union containing a Python scalar, for 4 categories x 3 dim strings",
              scalars="all %d categories x bool/int/float/complex x 8 dim strings" % len(CATS),
              probes="array shape rank 0..3 with unbounded sizes, dtype from a 14-name menu, two array classes, prior state of 0..1 accepted checks")
STUBS = c01.STUBS
ASSUMPTIONS = ["documented category sets as in C03 (docs/api/array.md)",
               "a Python scalar type 'belongs to' a category when the category contains a dtype whose name starts with the scalar's name (bool/int/float/complex), or the category is Shaped",
               "dtype names for probes come from a menu (string-level lookup is C03's subject)"]
REQUIRED_LABELS = {"nest-build", "nest-equivalent", "arrtype-law", "scalar-table", "aliases"}
REQUIRED_WITNESS = {"nest-ok", "nest-error", "scalar-kept", "scalar-rejected"}
BUDGET_S = {"quick": 150, "thorough": 900}
setup_worker = c01.setup_worker
preflight = c01.preflight

_usercat = {}


def user_cat(names):
    import jaxtyping as jt
    key = tuple(names)
    if key not in _usercat:
        class C(jt.AbstractDtype):
            dtypes = list(names)
        C.__name__ = "Inter" + str(len(_usercat))
        _usercat[key] = C
    return _usercat[key]


def build(fn):
    try:
        return "ok", fn()
    except ValueError as e:
        return "ValueError", e
    except (core.PathAbort, core.Unsupported, core.Nondeterminism, core.StopPath):
        raise
    except Exception as e:  # noqa
        return "EXC:" + type(e).__name__, e


def probe_pair(V, ann1, ann2, label, classes=(FakeArr,), **info):
    """Same symbolic array against both annotations from equal prior states."""
    from jaxtyping import jaxtyped
    cls = classes[V.choose("cls", len(classes))] if len(classes) > 1 else classes[0]
    rank = V.choose("rank", 4)
    shape = [V.int(f"s{i}", 0) for i in range(rank)]
    dt = DTYPES[V.choose("dt", len(DTYPES))]
    prior = V.choose("prior", 2)
    ps = [V.int("q0", 0), V.int("q1", 0)]
    res = []
    for ann in (ann1, ann2):
        with jaxtyped("context"):
            import jaxtyping as jt
            if prior:
                if not isinstance(FakeArr(tuple(ps)), jt.Shaped[FakeArr, "a b"]):
                    raise core.PathAbort("prior")
            got = c01.observe_check(cls(tuple(shape), dt), ann)
            res.append((got, base.bindings()))
    (g1, b1), (g2, b2) = res
    V.check(label, g1 == g2, left=str(g1), right=str(g2), dtype=dt, **info)
    if g1 == g2:
        compare.check_unchanged(V, label + "-bindings", b1, b2)
    return g1


def scenario(inst, V):
    import jaxtyping as jt
    from typing import Any, TypeVar, Union
    kind = inst["kind"]
    if kind == "nest":
        c1, c2 = getattr(jt, inst["inner"]), getattr(jt, inst["outer"])
        s1, s2 = inst["s1"], inst["s2"]
        d1, d2 = DOC[inst["inner"]], DOC[inst["outer"]]
        if d1 is None:
            inter = d2
        elif d2 is None:
            inter = d1
        else:
            inter = [x for x in d2 if x in d1]
        want_err = (inter is not None and len(inter) == 0) or (has_multi(s1) and has_multi(s2))
        outcome, ann = build(lambda: c2[c1[FakeArr, s1], s2])
        V.reach("nest-error" if outcome != "ok" else "nest-ok")
        V.check("nest-build", outcome == ("ValueError" if want_err else "ok"), outcome=outcome, expected_error=want_err)
        if outcome != "ok" or want_err:
            return dict(outcome=outcome)
        ref_cat = jt.Shaped if inter is None else user_cat(inter)
        ref = ref_cat[FakeArr, (s2 + " " + s1).strip()]
        g = probe_pair(V, ann, ref, "nest-equivalent", classes=(FakeArr, FakeArr2), inner=inst["inner"], outer=inst["outer"], s1=s1, s2=s2)
        return dict(outcome=outcome, verdict=str(g))
    if kind == "arrtype":
        cat = getattr(jt, inst["cat"])
        s, form = inst["s"], inst["form"]
        if form in ("union", "pipe", "tv-constraints", "union3"):
            members = [FakeArr, FakeArr2]
            if form == "union":
                at = Union[FakeArr, FakeArr2]
            elif form == "pipe":
                at = FakeArr | FakeArr2
            elif form == "union3":
                at = Union[FakeArr, FakeArr2, cat[FakeArr, "c"]]
                members = [FakeArr, FakeArr2, cat[FakeArr, "c"]]
            else:
                at = TypeVar("TC", FakeArr, FakeArr2)
            outcome, ann = build(lambda: cat[at, s])
            ok = outcome == "ok" and typing.get_origin(ann) is Union and len(typing.get_args(ann)) == len(members)
            V.check("arrtype-law", ok, outcome=outcome, form=form, what="union is unpacked member-wise")
            if ok:
                for m, a in zip(members, typing.get_args(ann)):
                    probe_pair(V, a, cat[m, s], "arrtype-law", classes=(FakeArr, FakeArr2), form=form)
        elif form == "union-disjoint":
            # one member is an annotation whose dtypes have nothing in common with the outer
            # category: D[Union[A, B], s] = Union[D[A, s], D[B, s]] and D[B, s] is an error
            other = jt.Int if inst["cat"] in ("Float", "Bool") else jt.Bool
            if inst["cat"] == "Shaped":
                return dict(form=form)
            outcome, ann = build(lambda: cat[Union[FakeArr, other[FakeArr, "c"]], s])
            V.check("arrtype-law", outcome == "ValueError", outcome=outcome, form=form)
        elif form == "tv-bound":
            outcome, ann = build(lambda: cat[TypeVar("TB", bound=FakeArr), s])
            V.check("arrtype-law", outcome == "ok", outcome=outcome, form=form)
            if outcome == "ok":
                probe_pair(V, ann, cat[FakeArr, s], "arrtype-law", classes=(FakeArr, FakeArr2), form=form)
        elif form == "tv-free":
            outcome, ann = build(lambda: cat[TypeVar("TF"), s])
            V.check("arrtype-law", outcome == "ok", outcome=outcome, form=form)
            if outcome == "ok":
                probe_pair(V, ann, cat[Any, s], "arrtype-law", classes=(FakeArr, FakeArr2), form=form)
        elif form == "union-scalar":
            outcome, ann = build(lambda: cat[Union[FakeArr, int], s])
            keeps_int = scalar_ok(inst["cat"], "int", s)
            if outcome == "ok":
                if keeps_int:
                    ok = typing.get_origin(ann) is Union and int in typing.get_args(ann)
                    V.check("arrtype-law", ok, form=form, got=repr(ann))
                else:
                    V.check("arrtype-law", isinstance(ann, type) and issubclass(ann, jt.AbstractArray), form=form, got=repr(ann))
                    probe_pair(V, ann, cat[FakeArr, s], "arrtype-law", form=form)
            else:
                V.check("arrtype-law", False, outcome=outcome, form=form)
        return dict(form=form)
    if kind == "scalar":
        cat = getattr(jt, inst["cat"])
        py = {"bool": bool, "int": int, "float": float, "complex": complex}[inst["scalar"]]
        outcome, ann = build(lambda: cat[py, inst["s"]])
        want = scalar_ok(inst["cat"], inst["scalar"], inst["s"])
        V.reach("scalar-kept" if outcome == "ok" else "scalar-rejected")
        V.check("scalar-table", (outcome == "ok" and ann is py) if want else outcome == "ValueError",
                outcome=outcome, expected_kept=want, got=repr(ann) if outcome == "ok" else None)
        return dict(outcome=outcome)
    if kind == "aliases":
        import jax
        import jax.numpy as jnp
        import numpy as np
        S_, SL, PK = jt.Scalar, jt.ScalarLike, jt.PRNGKeyArray
        ok = True
        why = []

        def same(a, b):
            return (a.dtype is b.dtype) and (a.array_type is b.array_type) and a.dim_str == b.dim_str
        if not same(S_, jt.Shaped[jax.Array, ""]):
            ok = False
            why.append("Scalar != Shaped[Array, '']")
        sl_ref = jt.Shaped[jax.typing.ArrayLike, ""]
        a1, a2 = typing.get_args(SL), typing.get_args(sl_ref)
        if len(a1) != len(a2) or not all((x is y) or (hasattr(x, "dim_str") and same(x, y)) for x, y in zip(a1, a2)):
            ok = False
            why.append("ScalarLike != Shaped[ArrayLike, '']")
        pk = typing.get_args(PK)
        if not (len(pk) == 2 and same(pk[0], jt.Key[jax.Array, ""]) and same(pk[1], jt.UInt32[jax.Array, "2"])):
            ok = False
            why.append("PRNGKeyArray != Union[Key[Array,''], UInt32[Array,'2']]")
        # behaviour on real values
        probes = [(jnp.zeros(()), S_, True), (jnp.zeros((1,)), S_, False), (np.zeros(()), S_, False),
                  (jax.random.key(0), pk[0], True), (jax.random.PRNGKey(0), pk[1], True), (jnp.zeros((2,), "uint32"), pk[1], True),
                  (jnp.zeros((3,), "uint32"), pk[1], False), (jnp.zeros((2,), "int32"), pk[1], False)]
        for val, ann, want in probes:
            if isinstance(val, ann) != want:
                ok = False
                why.append(f"isinstance({val!r}, {ann}) != {want}")
        V.check("aliases", ok, why=why)
        return dict(ok=ok)
    raise AssertionError(kind)


def scalar_ok(catname, scalar, s):
    toks = s.split()
    rank0 = all(t == "..." or t.lstrip("#?_").startswith("*") or t.startswith("*") for t in toks)
    doc = DOC[catname]
    in_cat = doc is None or any(d.startswith(scalar) for d in doc)
    return rank0 and in_cat


def _key(inst, label, vals, info):
    return f"{label}|{inst!r}"


harness, concrete_run, replay, finding_key = base.make_api(scenario, _key)
