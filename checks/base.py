"""Value providers: the same scenario code runs symbolically (SymV) and concretely (ConV).

A check module writes `scenario(inst, V)`; `V` supplies the quantified variables
(`V.int`, `V.choose`, `V.str`), builds arrays (`V.arr`) and evaluates obligations
(`V.check`).  Under SymV the variables are solver variables and obligations are solver
queries over the path condition; under ConV they are the plain values of a solver model,
arrays are real numpy arrays, no stub is installed, and obligations are evaluated
concretely -- that is the replay / the sampled concrete re-validation.
"""
import contextlib
import io
import threading

import z3

from symx import core
from symx import symstr as S
from env import broadcast
from env.fakes import FakeArr


def bindings():
    """Current bindings as seen through the public `print_bindings()`."""
    from jaxtyping import print_bindings
    buf = io.StringIO()
    with contextlib.redirect_stdout(buf):
        print_bindings()
    single, variadic, pytree = {}, {}, {}
    section = 0
    for line in buf.getvalue().splitlines():
        if line.startswith("The current values for each jaxtyping axis"):
            section = 1
            continue
        if line.startswith("The current values for each jaxtyping PyTree"):
            section = 2
            continue
        if "=" not in line:
            continue
        n, v = line.split("=", 1)
        if section == 2:
            pytree[n] = v
            continue
        val = core.untoken(v)
        if isinstance(val, tuple):
            variadic[n] = val
        else:
            single[n] = val
    return dict(single=single, variadic=variadic, pytree=pytree)


def concretize(obj, model):
    """Replace proxies by their values under `model` (for comparing observations)."""
    if isinstance(obj, core.SymInt):
        return model.eval(obj.e, model_completion=True).as_long()
    if isinstance(obj, core.SymBool):
        return z3.is_true(model.eval(obj.e, model_completion=True))
    if isinstance(obj, S.SymStr):
        return S.concretize(obj, model)
    if isinstance(obj, dict):
        return {k: concretize(v, model) for k, v in obj.items()}
    if isinstance(obj, (list, tuple)):
        return [concretize(v, model) for v in obj]
    return obj


class SymV:
    concrete = False
    ARR = FakeArr  # array class to annotate with

    def __init__(self, ctx):
        self.ctx = ctx

    def int(self, name, lo=0, hi=None):
        return core.sym_int(name, lo, hi)

    def bool(self, name):
        return core.sym_bool(name)

    def choose(self, name, n):
        return core.choose(name, n)

    def str(self, name, n, alphabet=None, lo=32, hi=126):
        return S.fresh(name, n, alphabet, lo, hi)

    def arr(self, shape, dtype="float32", cls=FakeArr, real=True):
        return cls(tuple(shape), dtype)

    def check(self, label, cond, **info):
        return self.ctx.check(label, cond, **info)

    def assume(self, cond):
        core.assume(cond)

    def decide(self, cond):
        """Truth value of an oracle condition on this path; forks the path when the path
        condition does not determine it (a harness-level decision, always sound)."""
        if isinstance(cond, core.SymBool):
            cond = cond.e
        if isinstance(cond, z3.BoolRef):
            return bool(core.wrap_bool(cond))
        return bool(cond)

    def reach(self, tag):
        self.ctx.reach(tag)

    def observe(self, obs):
        self.ctx.observation = obs


_NP_DT = {}


def np_array(shape, dtype="float32"):
    import numpy as np
    return np.broadcast_to(np.zeros((), dtype=dtype), tuple(shape))


class ConV:
    concrete = True

    def __init__(self, vals, real_arrays=True):
        self.vals = vals
        self.failed = []
        self.checked = []
        self.observation = None
        self.real_arrays = real_arrays
        self.witness = set()

    def int(self, name, lo=0, hi=None):
        return int(self.vals.get(name, lo if lo is not None else 0))

    def bool(self, name):
        return bool(self.vals.get(name, False))

    def choose(self, name, n):
        if n <= 1:
            return 0
        return int(self.vals.get(name, 0))

    def str(self, name, n, alphabet=None, lo=32, hi=126):
        return "".join(chr(self.vals.get(f"{name}_{i}", 97)) for i in range(n))

    @property
    def ARR(self):
        import numpy
        return numpy.ndarray if self.real_arrays else FakeArr

    def arr(self, shape, dtype="float32", cls=FakeArr, real=True):
        if self.real_arrays and cls is FakeArr and real:
            return np_array(shape, dtype)
        return cls(tuple(shape), dtype)

    def check(self, label, cond, **info):
        self.checked.append(label)
        if isinstance(cond, core.SymBool):
            cond = cond.e
        if isinstance(cond, z3.BoolRef):
            c = z3.simplify(cond)
            if z3.is_true(c):
                ok = True
            elif z3.is_false(c):
                ok = False
            else:
                s = z3.Solver()
                s.add(z3.Not(c))
                ok = s.check() == z3.unsat
        else:
            ok = bool(cond)
        if not ok:
            self.failed.append((label, info))
        return ok

    def assume(self, cond):
        if isinstance(cond, core.SymBool):
            cond = cond.e
        if isinstance(cond, z3.BoolRef):
            cond = z3.is_true(z3.simplify(cond))
        if not cond:
            raise core.PathAbort("assume false (concrete)")

    def reach(self, tag):
        self.witness.add(tag)

    def decide(self, cond):
        if isinstance(cond, core.SymBool):
            cond = cond.e
        if isinstance(cond, z3.BoolRef):
            c = z3.simplify(cond)
            if z3.is_true(c):
                return True
            if z3.is_false(c):
                return False
            raise core.Unsupported("oracle condition not closed in concrete mode")
        return bool(cond)

    def observe(self, obs):
        self.observation = obs


def run_in_thread(fn):
    box = {}

    def target():
        try:
            box["r"] = fn()
        except BaseException as e:  # noqa
            box["e"] = e

    t = threading.Thread(target=target)
    t.start()
    t.join()
    if "e" in box:
        raise box["e"]
    return box.get("r")


class real_numpy:
    """Scope in which jaxtyping sees the real numpy (no broadcast stub)."""

    def __enter__(self):
        import jaxtyping._array_types as at
        self.prev = at.np
        broadcast.uninstall()

    def __exit__(self, *a):
        import jaxtyping._array_types as at
        at.np = self.prev


def make_api(scenario, key_fn=None):
    """Derive harness / concrete_run / replay / finding_key from a scenario function."""

    def harness(inst):
        def h(ctx):
            V = SymV(ctx)
            obs = scenario(inst, V)
            if obs is not None:
                ctx.observation = obs
        return h

    def concrete_run(inst, vals):
        V = ConV(vals)
        with real_numpy():
            try:
                obs = run_in_thread(lambda: scenario(inst, V))
            except core.PathAbort:
                return "pathabort"
        return obs

    def replay(inst, label, vals, info):
        V = ConV(vals)
        with real_numpy():
            try:
                obs = run_in_thread(lambda: scenario(inst, V))
            except core.PathAbort as e:
                return False, f"replay: path assumption not met concretely: {e}"
        failed = [l for l, _ in V.failed]
        text = (f"instance: {inst!r}\nmodel: {vals!r}\nobservation on real code (numpy arrays, no stubs): "
                f"{obs!r}\nfailed obligations: {failed}\ninfo: {info!r}")
        return (label in failed), text

    def finding_key(inst, label, vals, info):
        if key_fn is not None:
            return key_fn(inst, label, vals, info)
        return f"{label}|{inst!r}"

    return harness, concrete_run, replay, finding_key
