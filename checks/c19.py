"""C19 -- disabling checks makes decorated code behave exactly like plain code.

(a) switch values: the real _JaxtypingConfig.update / _maybestr2bool (and _JaxtypingConfig()
    construction reading the environment through a dict stub) on a *symbolic string*:
    False iff lower-cased in {0,false}; True iff in {1,true}; otherwise ValueError; booleans
    pass through; any other type ValueError; never another exception.
(b) behaviour: a function / method / dataclass is decorated and called twice with symbolic
    shapes while the switch is toggled at every moment (before decoration, between decoration
    and call, between the calls); with the switch on at call time the result must be that of
    the plain function for ALL shapes (ill-typed included: body runs once, same result object /
    same exception); with the switch off at call time the call is accepted iff the shapes are
    consistent (declarative semantics), whatever the switch was at decoration time.
    typing.no_type_check above or below the decorator: always plain behaviour.
"""
import itertools
import random
import typing

import z3

from checks import base, c01, fnlib
from spec import dims as D
from spec import exists as X
from symx import core, symstr as S

PROPERTY = "C19"
TITLE = "Disabling checks makes decorated code behave exactly like plain code"

ALPHA = "01trueTRUEfalsFALS xy"
KINDS = ["function", "method", "dataclass", "staticmethod"]


def instances(tier, seed):
    out = []
    nmax = 5 if tier == "quick" else 6
    for route in ("update", "environ", "update-stack"):
        for n in range(0, nmax + 1):
            if n <= 3:
                out.append(("core", dict(kind="value", route=route, n=n, prefix="")))
            else:
                for c in sorted(set(ALPHA)):
                    g = "core" if (n <= 4 or route == "update") else "ext"
                    out.append((g, dict(kind="value", route=route, n=n, prefix=c)))
    for v in ("True", "False", "int0", "int1", "none", "float", "bytes", "list"):
        out.append(("core", dict(kind="nonstr", what=v)))
    for ck in KINDS:
        for tc in ("typeguard", "beartype"):
            for states in itertools.product((0, 1), repeat=3):
                out.append(("core", dict(kind="toggle", callable=ck, tc=tc, states=list(states), body_raises=False)))
            out.append(("core", dict(kind="toggle", callable=ck, tc=tc, states=[1, 1, 0], body_raises=True)))
            for pos in ("above", "below"):
                out.append(("core", dict(kind="notypecheck", callable=ck, tc=tc, pos=pos)))
    # a functools.wraps wrapper that supplies an argument itself: its advertised signature does not
    # describe how it is called; with checking off nothing may look at that signature
    for tc in ("typeguard", "beartype"):
        for states in ([0, 1, 1], [1, 1, 1]):
            out.append(("core", dict(kind="toggle", callable="wrapped", tc=tc, states=states, body_raises=False)))
        for pos in ("above", "below"):
            out.append(("core", dict(kind="notypecheck", callable="wrapped", tc=tc, pos=pos)))
    # the deprecated double-decorator spelling jaxtyped(typechecker(fn))
    for tc in ("typeguard", "beartype"):
        for states in itertools.product((0, 1), repeat=3):
            out.append(("core", dict(kind="toggle", callable="oldstyle", tc=tc, states=list(states), body_raises=False)))
    # the switch toggled while a jaxtyped("context") block is open
    for where in ("top", "infunc"):
        for enter, leave in itertools.product((0, 1), repeat=2):
            out.append(("core", dict(kind="ctxtoggle", where=where, enter=enter, leave=leave)))
    return out


BOUNDS = dict(values="every string of length <=5 (thorough 6) over the alphabet %r through config.update (both switches) and through the JAXTYPING_DISABLE environment route; non-string values bool/int/None/float/bytes/list" % "".join(sorted(set(ALPHA))),
              toggling="all 8 on/off assignments to (before decoration, between decoration and first call, between first and second call) x {function, method, dataclass, staticmethod, old-style jaxtyped(typechecker(fn))} x {typeguard, beartype}; typing.no_type_check above / below; a functools.wraps wrapper with a misleading signature; non-binding calls with checking off; the switch toggled inside an open jaxtyped('context') block (top level / inside a decorated call, all 4 enter/leave assignments)",
              shapes="two array arguments + returned array, rank 0..2, sizes unbounded")
STUBS = ["os.environ inside jaxtyping._config -> dict stub (mapping str -> str contract)", "SymStr"] + c01.STUBS
ASSUMPTIONS = ["ASCII only: str.lower() on non-ASCII case mappings is outside the claim",
               "'same exception' = same class and args, not same traceback",
               "typing.no_type_check is placed directly above / below the jaxtyped decorator of the function; on top of a jaxtyped staticmethod/classmethod *object* the flag is not observable at call time and is outside the claim"]
REQUIRED_LABELS = {"value", "nonstring", "disabled-is-plain", "enabled-checks", "notypecheck-is-plain", "ctx-toggle"}
REQUIRED_WITNESS = {"val-True", "val-False", "val-ValueError", "call-disabled", "call-enabled-OK", "call-enabled-TCE"}
BUDGET_S = {"quick": 120, "thorough": 900}
setup_worker = c01.setup_worker
preflight = c01.preflight


class _Env:
    def __init__(self, d):
        self.environ = d


class _OsProxy:
    def __init__(self, real, environ):
        self._real = real
        self.environ = environ

    def __getattr__(self, n):
        return getattr(self._real, n)


def _patched_environ(cfg, mapping):
    """Make jaxtyping._config see `mapping` as the process environment, however it got hold of
    it (`import os` -> os.environ, or `from os import environ`).  Returns an undo function."""
    import os
    saved = {}
    for k, v in list(vars(cfg).items()):
        if v is os:
            saved[k] = v
            setattr(cfg, k, _OsProxy(os, mapping))
        elif v is os.environ:
            saved[k] = v
            setattr(cfg, k, mapping)

    def undo():
        for k, v in saved.items():
            setattr(cfg, k, v)
    return undo, bool(saved)


def observe_value(route, value):
    import sys
    import jaxtyping as jt
    cfg = sys.modules[type(jt.config).__module__]
    Config = type(jt.config)
    try:
        if route == "update":
            c = Config()
            c.update("jaxtyping_disable", value)
            r = c.jaxtyping_disable
        elif route == "update-stack":
            c = Config()
            c.update("JAXTYPING_REMOVE_TYPECHECKER_STACK", value)
            r = c.jaxtyping_remove_typechecker_stack
        else:
            undo, ok = _patched_environ(cfg, {"JAXTYPING_DISABLE": value})
            if not ok:
                raise core.Unsupported("cannot intercept the environment lookup of the config module")
            try:
                r = Config().jaxtyping_disable
            finally:
                undo()
        if r is True:
            return "True"
        if r is False:
            return "False"
        return "OTHER:" + repr(type(r))
    except ValueError:
        return "ValueError"
    except (core.PathAbort, core.Unsupported, core.Nondeterminism, core.StopPath):
        raise
    except Exception as e:  # noqa
        return "EXC:" + type(e).__name__


def ref_value(s):
    low = s.lower()
    for w, r in (("0", "False"), ("false", "False"), ("1", "True"), ("true", "True")):
        if low == w:
            return r
    return "ValueError"


_built = {}


def build_callable(inst, ARR, plain=False):
    """(re)decorates on every call: decoration time matters here.  plain=True: the undecorated twin."""
    import dataclasses
    import jaxtyping as jt
    A, Bn, R = jt.Float[ARR, "a b"], jt.Float[ARR, "b c"], jt.Float[ARR, "a c"]
    g = {"A": A, "B": Bn, "R": R, "_body": fnlib._body, "dataclasses": dataclasses, "jt": jt,
         "tc": fnlib.typechecker(inst["tc"]), "typing": typing}
    ck = inst["callable"]
    dec = "@jt.jaxtyped(typechecker=tc)"
    if inst["kind"] == "notypecheck":
        dec = ("@typing.no_type_check\n" + dec) if inst["pos"] == "above" else (dec + "\n@typing.no_type_check")
    if plain:
        dec = "# plain"
    ind = lambda s, n=4: "\n".join(" " * n + l for l in s.split("\n"))
    if ck == "function":
        src = f"{dec}\ndef f(x: A, y: B) -> R:\n    return _body()\ncall = f\n"
    elif ck == "method":
        src = f"class K:\n{ind(dec)}\n    def f(self, x: A, y: B) -> R:\n        return _body()\ncall = K().f\n"
    elif ck == "oldstyle":
        g["warnings"] = __import__("warnings")
        deco = "f = f" if plain else "with warnings.catch_warnings():\n    warnings.simplefilter('ignore')\n    f = jt.jaxtyped(tc(f))"
        src = f"def f(x: A, y: B) -> R:\n    return _body()\n{deco}\ncall = f\n"
    elif ck == "wrapped":
        g["functools"] = __import__("functools")
        src = ("def inner(x: A, y: B, extra) -> R:\n    return _body()\n"
               f"{dec}\n@functools.wraps(inner)\ndef f(x, y):\n    return inner(x, y, 1)\ncall = f\n")
    elif ck == "staticmethod":
        src = f"class K:\n    @staticmethod\n{ind(dec)}\n    def f(x: A, y: B) -> R:\n        return _body()\ncall = K.f\n"
    else:
        src = (f"{dec}\n@dataclasses.dataclass\nclass K:\n    x: A\n    y: B\n"
               "    def __post_init__(self):\n        _body()\ncall = K\n")
    exec(src, g)
    return g["call"]


def scenario(inst, V):
    import jaxtyping as jt
    kind = inst["kind"]
    if kind == "value":
        n, prefix = inst["n"], inst["prefix"]
        rest = V.str("c", n - len(prefix), ALPHA) if n > len(prefix) else ""
        s = prefix + rest if prefix else rest
        got = observe_value(inst["route"], s)
        exp = ref_value(s)
        V.reach("val-" + got)
        V.check("value", got == exp, got=got, expected=exp, route=inst["route"])
        return dict(got=got)
    if kind == "nonstr":
        v = {"True": True, "False": False, "int0": 0, "int1": 1, "none": None, "float": 1.0, "bytes": b"1",
             "list": ["1"]}[inst["what"]]
        got = observe_value("update", v)
        exp = {"True": "True", "False": "False"}.get(inst["what"], "ValueError")
        V.check("nonstring", got == exp, got=got, expected=exp, value=repr(v))
        return dict(got=got)
    if kind == "ctxtoggle":
        return scenario_ctxtoggle(inst, V)
    # ---- behaviour
    mr = 2
    shapes = []
    for i in range(3):
        r = V.choose(f"r{i}", mr + 1)
        shapes.append([V.int(f"s{i}_{j}", 0) for j in range(r)])
    x, y, out = (V.arr(s) for s in shapes)
    dims = [D.parse_ref("a b"), D.parse_ref("b c"), D.parse_ref("a c")]
    is_dc = inst["callable"] == "dataclass"
    use = dims[:2] if is_dc else dims
    lsh = [[core.lift(s) for s in sh] for sh in shapes][: len(use)]
    names, vnames = X.names_of(use)
    sg = X.fresh_sigma(names, vnames, mr, "sg")
    consistent = z3.And(*[X.match(d, s, sg) for d, s in zip(use, lsh)])
    states = inst.get("states", [0, 0, 0])
    obs = []
    try:
        jt.config.update("jaxtyping_disable", bool(states[0]))
        fn = build_callable(inst, V.ARR)
        for ci, st in enumerate(states[1:]):
            jt.config.update("jaxtyping_disable", bool(st))
            fnlib.HOLD["ret"] = out
            fnlib.HOLD["body_exc"] = KeyError("from body") if inst.get("body_raises") else None
            n0 = fnlib.HOLD["calls"]
            # manual checks inside the body: two arrays of different size against one axis name
            pa, pb = V.arr([3]), V.arr([4])
            ZQ = jt.Float[V.ARR, "zq"]
            fnlib.HOLD["probe"] = lambda: (isinstance(pa, ZQ), isinstance(pb, ZQ))
            fnlib.HOLD["probe_result"] = None
            kindr, res = fnlib.call(fn, ["x", "y"], [x, y], "pos")
            if inst["callable"] == "oldstyle" and kindr.startswith("EXC:") and kindr != "EXC:KeyError":
                kindr = "TCE"   # the typechecker's own exception class (old-style spelling)
            fnlib.HOLD["probe"] = None
            ncalls = fnlib.HOLD["calls"] - n0
            plain = (kind == "notypecheck") or bool(st)
            if plain:
                V.reach("call-disabled")
                if inst.get("body_raises"):
                    ok = kindr == "EXC:KeyError" and res is fnlib.HOLD["body_exc"] and ncalls == 1
                elif is_dc:
                    ok = kindr == "OK" and ncalls == 1 and res.x is x and res.y is y
                else:
                    ok = kindr == "OK" and res is out and ncalls == 1
                # plain code has no jaxtyping context of its own: the body's manual checks are stateless
                ok = ok and fnlib.HOLD["probe_result"] == (True, True)
                V.check("notypecheck-is-plain" if kind == "notypecheck" else "disabled-is-plain", ok,
                        got=kindr, calls=ncalls, call=ci, states=states, body_checks=fnlib.HOLD["probe_result"])
                # a call that does not bind: exactly the plain function's own TypeError (class and text)
                twin = build_callable(inst, V.ARR, plain=True)
                bad = []
                for f_ in (twin, fn):
                    k_, e_ = fnlib.call(f_, ["x"], [x], "pos")
                    bad.append((k_, tuple(map(str, getattr(e_, "args", ()))) if k_.startswith("EXC") else None))
                V.check("notypecheck-is-plain" if kind == "notypecheck" else "disabled-is-plain", bad[0] == bad[1],
                        what="non-binding call", plain=bad[0], decorated=bad[1])
            else:
                V.reach("call-enabled-" + kindr)
                if inst.get("body_raises"):
                    # the body raises: reached iff the parameters alone are consistent
                    puse, plsh = dims[:2], [[core.lift(q) for q in sh] for sh in shapes][:2]
                    sgp = X.fresh_sigma(*X.names_of(puse), mr, "sp")
                    pcons = z3.And(*[X.match(d_, s_, sgp) for d_, s_ in zip(puse, plsh)])
                    if kindr == "EXC:KeyError":
                        V.check("enabled-checks", res is fnlib.HOLD["body_exc"] and ncalls == 1, got=kindr)
                    elif kindr == "TCE":
                        V.check("enabled-checks", z3.Not(pcons), got=kindr, call=ci, states=states)
                    else:
                        V.check("enabled-checks", False, got=kindr, call=ci, states=states)
                elif kindr == "OK":
                    # accepted => some consistent assignment exists (witness found by the solver)
                    V.check("enabled-checks", ncalls == 1, got=kindr, calls=ncalls)
                    Bw = D.Bindings()
                    for d_, s_ in zip(use, lsh):
                        Bw = D.step(d_, s_, Bw)["B"]
                    sw = X.sigma_from_bindings(Bw)
                    V.check("enabled-accepts-only-consistent",
                            z3.And(*[X.match(d_, s_, sw) for d_, s_ in zip(use, lsh)]), call=ci, states=states)
                elif kindr == "TCE":
                    V.check("enabled-checks", z3.Not(consistent), got=kindr, call=ci, states=states)
                    # the body runs iff the parameters alone were fine (failure at the return value)
                else:
                    V.check("enabled-checks", False, got=kindr, call=ci, states=states)
            obs.append(kindr)
    finally:
        jt.config.update("jaxtyping_disable", False)
        fnlib.HOLD["body_exc"] = None
    return dict(calls=obs)


def scenario_ctxtoggle(inst, V):
    """jaxtyped("context") pushes on entry and pops on exit whatever the switch says at either
    moment: toggling inside the block neither leaks its bindings nor pops somebody else's."""
    import jaxtyping as jt
    from jaxtyping import jaxtyped
    N = jt.Float[V.ARR, "n"]
    m, k, xs = V.int("m", 0), V.int("k", 0), V.int("xs", 0)
    obs = {}

    def block():
        jt.config.update("jaxtyping_disable", bool(inst["enter"]))
        with jaxtyped("context"):
            r = c01.observe_check(V.arr([m]), N)
            V.check("ctx-toggle", r == D.ACC, what="first use of n inside the block", got=str(r))
            jt.config.update("jaxtyping_disable", bool(inst["leave"]))
        jt.config.update("jaxtyping_disable", False)

    try:
        if inst["where"] == "top":
            try:
                block()
                obs["block"] = "ok"
            except (core.PathAbort, core.Unsupported, core.Nondeterminism, core.StopPath):
                raise
            except Exception as e:  # noqa
                obs["block"] = "EXC:" + type(e).__name__
            V.check("ctx-toggle", obs["block"] == "ok", what="the block completes", got=obs["block"])
        else:
            @jaxtyped(typechecker=None)
            def f(x: N):
                r0 = c01.observe_check(x, N)          # binds n = xs in f's frame
                block()
                r1 = c01.observe_check(V.arr([k]), N)  # f's frame again: accepted iff k == xs
                return r0, r1
            try:
                r0, r1 = f(V.arr([xs]))
                obs["block"] = "ok"
                V.check("ctx-toggle", r0 == D.ACC and r1 in (D.ACC, D.REJ), what="verdicts", r0=str(r0), r1=str(r1))
                V.check("ctx-toggle", (core.lift(k) == core.lift(xs)) if r1 == D.ACC else (core.lift(k) != core.lift(xs)),
                        what="the enclosing call's binding of n is intact after the block", r1=str(r1))
            except (core.PathAbort, core.Unsupported, core.Nondeterminism, core.StopPath):
                raise
            except Exception as e:  # noqa
                obs["block"] = "EXC:" + type(e).__name__
                V.check("ctx-toggle", False, what="the enclosing call completes", got=obs["block"])
        # afterwards, with checking on: nothing is bound at top level and checks are stateless
        jt.config.update("jaxtyping_disable", False)
        impl = base.bindings()
        r = c01.observe_check(V.arr([k]), N)
        V.check("ctx-toggle", not impl["single"] and r == D.ACC, what="top level stateless afterwards",
                bindings=repr(impl["single"]), got=str(r))
    finally:
        jt.config.update("jaxtyping_disable", False)
        # a leaked frame would poison later instances of this worker: drop whatever is left
        try:
            from jaxtyping._storage import _shape_storage
            getattr(_shape_storage, "memo_stack", []).clear()
        except Exception:  # noqa
            pass
    return obs


def _key(inst, label, vals, info):
    if inst.get("callable") == "oldstyle" and label == "disabled-is-plain":
        # one root cause for every shape / toggle assignment: see known_findings.json
        return "old-style-double-decoration-ignores-the-disable-switch"
    return f"{label}|{sorted((k, repr(v)) for k, v in inst.items())!r}"


harness, concrete_run, replay, finding_key = base.make_api(scenario, _key)
