"""C12 -- a check's verdict never depends on earlier, unrelated activity in the process.

Real code executed symbolically: the instance checks, _MetaPyTree._check (tree-flatten mode
flag, '?' leaf position), the memo stack, the decorator wrappers, make_transparent, the pickle
reducer, the import hook installer, config -- after a *history* of operations in which a
fault (an exception of class Exception / KeyboardInterrupt / GeneratorExit) is injected at
the k-th point where jaxtyping calls out into user code; k, the exception class and all
shapes are solver variables/selectors.  Then probe checks are run (on fresh annotation
objects and on the annotation objects the history used) and compared with the reference
semantics from the bindings that *should* be in force (reference interpreter: an operation
that did not complete with acceptance binds nothing).
"""
import pickle
import random
import warnings

import z3

from checks import base, c01, fnlib
from checks.c04 import FaultArr, UserError
from env.fakes import FakeArr
from spec import compare, dims as D, trees as T
from symx import core

PROPERTY = "C12"
TITLE = "A check's verdict never depends on earlier, unrelated activity in the process"

EXC = [UserError, KeyboardInterrupt, GeneratorExit]

# fault injection: call-out points tick a counter; the k-th tick of the selected site raises
FAULT = {"site": None, "k": 0, "n": 0, "exc": UserError}


def tick(site):
    if FAULT["site"] == site:
        FAULT["n"] += 1
        if FAULT["n"] == FAULT["k"]:
            raise FAULT["exc"]("injected fault at " + site)


class TickArr(FakeArr):
    """array whose shape/dtype accesses are call-out points"""

    def __init__(self, shape, dtype="float32"):
        self.__dict__["_s"] = tuple(shape)
        self.__dict__["_d"] = dtype

    @property
    def shape(self):
        tick("shape")
        return self.__dict__["_s"]

    @property
    def dtype(self):
        tick("dtype")
        return self.__dict__["_d"]


class Node:
    def __init__(self, *children):
        self.children = children


def _node_flatten(n):
    tick("flatten")
    return n.children, None


def _node_unflatten(aux, children):
    return Node(*children)


class _MetaLeaf(type):
    def __instancecheck__(cls, obj):
        tick("leafcheck")
        return type(obj) is TickArr or type.__instancecheck__(cls, obj)


class RaisingLeaf(metaclass=_MetaLeaf):
    pass


_registered = [False]


def setup_worker():
    c01.setup_worker()
    if not _registered[0]:
        import jax.tree_util as jtu
        jtu.register_pytree_node(Node, _node_flatten, _node_unflatten)
        _registered[0] = True


preflight = c01.preflight

HISTORY = [
    ["arr", "p q", "shape"], ["arr", "p *v q", "shape"], ["arr", "p q", "dtype"], ["arr", "q p+1", "shape"],
    ["tree", "p ?a", "T", "node2", "flatten"], ["tree", "p ?a", "T", "node2", "shape"],
    ["tree", "?a q", "T", "tuple3", "shape"], ["tree", "p", None, "node2", "flatten"],
    ["tree", "p *v", None, "tuple3", "dtype"], ["tree", "leaf", "T", "node2", "leafcheck"],
    ["tree", "leaf", None, "tuple3", "leafcheck"], ["tree", "p ?a", "S T", "tuple3", "none"],
    ["tree", "p p+1", "T", "tuple3", "none"], ["nested", "?a p", "T", "tuple3", "shape"],
    ["call", "new-typeguard", "body"], ["call", "new-beartype", "body"], ["call", "old-typeguard", "body"],
    ["call", "none", "body"], ["call", "new-typeguard", "shape"], ["call", "old-typeguard", "shape"],
    ["genalias"], ["picklealias"], ["hook"], ["config"], ["exprfault"],
    ["bindfail", "new-typeguard"], ["bindfail", "new-beartype"], ["bindfail", "old-typeguard"], ["bindfail", "none"],
    ["ctxraise", "Exception"], ["ctxraise", "KeyboardInterrupt"],
    ["nestedunion"], ["tree", "p", "T", "tuple3", "none"],
]


def instances(tier, seed):
    rng = random.Random(seed)
    out = []
    for h in HISTORY:
        for where in ("ctx", "top"):
            out.append(("core", dict(hist=[h], where=where)))
    # a passing check that *overwrites* an existing binding (broadcastable variadic), inside a
    # PyTree check that is rejected afterwards: the overwrite must be undone
    out.append(("core", dict(hist=[["arr", "*#v", "none"], ["tree", "*#v", None, "node2", "none"]], where="ctx")))
    for k in ("new-typeguard", "new-beartype", "old-typeguard", "none"):
        out.append(("core", dict(hist=[["arr", "p q", "none"], ["bindfail", k]], where="ctx")))
    pairs = [(a, b) for a in HISTORY for b in HISTORY]
    rng.shuffle(pairs)
    n2 = 60 if tier == "quick" else 600
    for a, b in pairs[:n2]:
        out.append(("ext", dict(hist=[a, b], where=rng.choice(["ctx", "top"]))))
    if tier == "thorough":
        for _ in range(300):
            out.append(("ext", dict(hist=[rng.choice(HISTORY) for _ in range(3)], where=rng.choice(["ctx", "top"]))))
    return out


BOUNDS = dict(history="1 operation (all 33 of the catalogue, in a context and at top level), seeded pairs (thorough: triples)",
              fault="at the k-th call-out of the operation's site (array .shape / .dtype, custom flatten function, leaf __instancecheck__, wrapped function body, {expr}), k symbolic 0..7 (0 = no fault), class in {Exception subclass, KeyboardInterrupt, GeneratorExit}",
              shapes="history arrays: rank 2-3 with unbounded sizes; probes: rank 1-2 unbounded sizes")
STUBS = c01.STUBS + ["TickArr / Node / RaisingLeaf: user-code stand-ins whose call-outs tick the fault counter"]
ASSUMPTIONS = ["the injected exception is caught by the harness right after the operation",
               "jax tree_flatten (C++) runs concretely on the skeleton",
               "the shared annotation alias used by 'genalias' is the return annotation of an old-style decorated generator function"]
REQUIRED_LABELS = {"probe-dtype", "probe-shape", "probe-ref", "probe-qmark-misuse", "probe-qmark-use", "probe-toplevel", "probe-structure",
                   "alias-dtype", "alias-shape"}
REQUIRED_WITNESS = {"fault-UserError", "fault-KeyboardInterrupt", "fault-GeneratorExit", "op-completed"}
BUDGET_S = {"quick": 200, "thorough": 1800}

_cache = {}


def alias(ARR):
    """The annotation object shared between history operations and probes (fresh per path)."""
    import jaxtyping as jt
    return jt.Float[ARR, "p"]


def get_call_fn(kind, ARR):
    key = (kind, ARR)
    if key in _cache:
        return _cache[key]
    import jaxtyping as jt
    g = {"A": jt.Float[TickArr, "p q"], "tick": tick}
    exec("def f(x: A, y=None):\n    tick('body')\n    return None\n", g)
    tcname = kind.split("-")[1] if "-" in kind else None
    tc = fnlib.typechecker(tcname)
    with warnings.catch_warnings():
        warnings.simplefilter("ignore")
        if kind.startswith("old-"):
            fn = jt.jaxtyped(tc(g["f"]))
        elif kind == "none":
            fn = jt.jaxtyped(typechecker=None)(g["f"])
        else:
            fn = jt.jaxtyped(typechecker=tc)(g["f"])
    _cache[key] = fn
    return fn


def build_tree(skel, leaves):
    if skel == "node2":
        return Node(leaves[0], (leaves[1],))
    if skel == "tuple3":
        return (leaves[0], [leaves[1], {"k": leaves[2]}])
    raise KeyError(skel)


NLEAVES = {"node2": 2, "tuple3": 3}


def scenario(inst, V):
    import jaxtyping as jt
    from jaxtyping import jaxtyped, PyTree
    ALIAS = alias(TickArr)
    obs = []
    state = {"B": D.Bindings()}
    in_ctx = inst["where"] == "ctx"

    def guarded(fn):
        """run one history operation; returns outcome string"""
        try:
            r = fn()
            V.reach("op-completed")
            return r
        except (core.PathAbort, core.Unsupported, core.Nondeterminism, core.StopPath):
            raise
        except BaseException as e:  # noqa
            if isinstance(e, (UserError, KeyboardInterrupt, GeneratorExit)) and "injected fault" in str(e):
                V.reach("fault-" + type(e).__name__)
                return "FAULT"
            from jaxtyping import AnnotationError, TypeCheckError
            if isinstance(e, AnnotationError):
                return "ERR"
            if isinstance(e, TypeCheckError):
                return "TCE"
            return "EXC:" + type(e).__name__
        finally:
            FAULT["site"] = None

    def arm(site, tag):
        FAULT.update(site=site if site != "none" else None, n=0, k=V.int(f"{tag}k", 0, 7),
                     exc=EXC[V.choose(f"{tag}e", len(EXC))])

    def run_history():
        for hi, h in enumerate(inst["hist"]):
            tag = f"h{hi}"
            kind = h[0]
            if kind == "arr":
                _, dims, site = h
                pd = D.parse_ref(dims)
                shape = [V.int(f"{tag}s{i}", 0) for i in range(len(pd))]  # a variadic token gets exactly one axis
                arm(site, tag)
                r = guarded(lambda: isinstance(TickArr(shape), jt.Float[TickArr, dims]))
                if r is True and in_ctx:
                    state["B"] = D.step(pd, [core.lift(s) for s in shape], state["B"])["B"]
                obs.append(str(r))
            elif kind in ("tree", "nested"):
                _, dims, struct, skel, site = h
                nl = NLEAVES[skel]
                if dims == "leaf":
                    leafT = RaisingLeaf
                    shapes = [[V.int(f"{tag}l{i}", 0)] for i in range(nl)]
                    pd = None
                else:
                    leafT = jt.Float[TickArr, dims]
                    pd = D.parse_ref(dims)
                    shapes = [[V.int(f"{tag}l{i}_{j}", 0) for j in range(len(pd))] for i in range(nl)]
                tree = build_tree(skel, [TickArr(s) for s in shapes])
                if kind == "nested":
                    ann = PyTree[PyTree[leafT], struct]
                else:
                    ann = PyTree[leafT, struct] if struct else PyTree[leafT]
                arm(site, tag)
                r = guarded(lambda: isinstance(tree, ann))
                if r is True and in_ctx and pd is not None and struct in (None, "T"):
                    res, B2 = T.leaves_step(V, pd, [[core.lift(s) for s in sh] for sh in shapes], struct, state["B"])
                    if res == "ACC":
                        state["B"] = B2
                if r is True and struct == "T":
                    state["T"] = True
                    state["Tskel"] = skel if kind == "tree" else None
                obs.append(str(r))
            elif kind == "call":
                _, ck, site = h
                fn = get_call_fn(ck, TickArr)
                shape = [V.int(f"{tag}s0", 0), V.int(f"{tag}s1", 0)]
                arm(site, tag)
                obs.append(str(guarded(lambda: fn(TickArr(shape)))))
            elif kind == "bindfail":
                # a call that does not bind to the signature (caught TypeError)
                fn = get_call_fn(h[1], TickArr)
                def bad():
                    try:
                        fn()
                    except TypeError as e:
                        return "TypeError"
                    return "no error"
                arm("none", tag)
                obs.append(str(guarded(bad)))
            elif kind == "ctxraise":
                # a context block left through an exception after it bound something
                exc = UserError if h[1] == "Exception" else KeyboardInterrupt
                sh = [V.int(f"{tag}s0", 0), V.int(f"{tag}s1", 0)]
                def blk():
                    try:
                        with jaxtyped("context"):
                            isinstance(TickArr(sh), jt.Float[TickArr, "p q"])
                            raise exc("leaving the block")
                    except (UserError, KeyboardInterrupt):
                        return "left"
                arm("none", tag)
                obs.append(str(guarded(blk)))
            elif kind == "nestedunion":
                # a structured PyTree as one member of a union leaf type: while the outer tree is
                # flattened the inner check binds T and then fails; the outer check passes via `str`
                import typing
                ann = PyTree[typing.Union[PyTree[int, "T"], str]]
                arm("none", tag)
                obs.append(str(guarded(lambda: isinstance(("x", "y"), ann))))
            elif kind == "genalias":
                g = {"ALIAS": ALIAS}
                exec("def gen(x) -> ALIAS:\n    yield x\n", g)
                import typeguard
                with warnings.catch_warnings():
                    warnings.simplefilter("ignore")
                    obs.append(str(guarded(lambda: jt.jaxtyped(typeguard.typechecked(g["gen"])) and "decorated")))
            elif kind == "picklealias":
                obs.append(str(guarded(lambda: pickle.loads(pickle.dumps(jt.Float[FakeArr, "p"])) and "pickled")))
            elif kind == "hook":
                def hook():
                    h_ = jt.install_import_hook("verif_no_such_pkg", "typeguard.typechecked")
                    h_.uninstall()
                    return "hooked"
                obs.append(str(guarded(hook)))
            elif kind == "config":
                def cfg():
                    jt.config.update("jaxtyping_disable", True)
                    jt.config.update("jaxtyping_disable", False)
                    return "toggled"
                obs.append(str(guarded(cfg)))
            elif kind == "exprfault":
                class Boom:
                    @property
                    def value(self):
                        tick("expr")
                        return 1
                shape = [V.int(f"{tag}s0", 0), V.int(f"{tag}s1", 0)]

                @jaxtyped(typechecker=None)
                def f(boom):
                    return isinstance(TickArr(shape), jt.Float[TickArr, "p {boom.value}"])
                arm("expr", tag)
                obs.append(str(guarded(lambda: f(Boom()))))
            else:
                raise AssertionError(h)

    def probes():
        B = state["B"] if in_ctx else D.Bindings()
        s = V.int("ps", 0)
        s2 = V.int("ps2", 0)
        for label, ann in (("probe", jt.Float[TickArr, "p"]), ("alias", ALIAS)):
            r = c01.observe_check(TickArr([s], "int32"), ann)
            V.check(f"{label}-dtype", r == D.REJ, got=str(r))
            r = c01.observe_check(TickArr([s, s2]), ann)
            V.check(f"{label}-shape", r == D.REJ, got=str(r))
        # verdict from the bindings that should be in force
        pr = V.choose("prk", 5)
        pdims = ["p", "q p", "*v p", "*v", "*#v"][pr]
        shape = [V.int(f"pr{i}", 0) for i in range(1 if pr in (0, 3, 4) else 2)]
        got = c01.observe_check(TickArr(shape), jt.Float[TickArr, pdims])
        st = D.step(D.parse_ref(pdims), [core.lift(x) for x in shape], B)
        V.check("probe-ref", D.verdict_allowed(st, got) if got in (0, 1, 2) else False, got=str(got), dims=pdims)
        r = c01.observe_check(TickArr([s]), jt.Float[TickArr, "?a"])
        V.check("probe-qmark-misuse", r == D.ERR, got=str(r))
        t2 = (TickArr([s]), TickArr([s2]))
        r = c01.observe_check(t2, PyTree[jt.Float[TickArr, "?a"], "T2"])
        V.check("probe-qmark-use", r == D.ACC, got=str(r))
        if in_ctx and not (state.get("T") and state.get("Tskel") is None):
            # the structure name T: bound by the history to a known skeleton, or still free
            bound = state.get("Tskel")
            same = bound or "tuple3"
            other = "node2" if same == "tuple3" else "tuple3"
            ints = lambda sk: build_tree(sk, [1, 2, 3][:NLEAVES[sk]])
            if bound:
                r = c01.observe_check(ints(other), PyTree[int, "T"])
                V.check("probe-structure", r == D.REJ, what="T is bound: another structure", got=str(r), bound=bound)
            r = c01.observe_check(ints(same), PyTree[int, "T"])
            V.check("probe-structure", r == D.ACC, what="T: the bound structure / first use", got=str(r), bound=bound)
            r = c01.observe_check(ints(other), PyTree[int, "T"])
            V.check("probe-structure", r == D.REJ, what="T: another structure afterwards", got=str(r), bound=bound)

    try:
        if in_ctx:
            with jaxtyped("context"):
                run_history()
                probes()
        else:
            run_history()
            probes()
    except (core.PathAbort, core.Unsupported, core.Nondeterminism, core.StopPath):
        raise
    except Exception as e:  # noqa
        # e.g. the enclosing block's own frame was taken away by an earlier operation
        V.check("probe-toplevel", False, why="exception escaped the probing context: " + repr(e))
    top = base.bindings()
    V.check("probe-toplevel", not (top["single"] or top["variadic"] or top["pytree"]), bindings=repr(top))
    return dict(history=obs)


def _key(inst, label, vals, info):
    if label.startswith("alias-") and any(h[0] == "genalias" for h in inst["hist"]):
        # one root cause, whatever else is in the history: see known_findings.json
        return "shared-annotation-made-transparent-by-generator-decoration"
    return f"{label}|{inst['hist']!r}|{inst['where']}"


harness, concrete_run, replay, finding_key = base.make_api(scenario, _key)
