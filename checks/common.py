"""Shared runner: instance pool, verdict discipline, known findings, evidence.

A check module provides
  PROPERTY, TITLE
  instances(tier, seed)  -> list of (group, instance)  group in {"core", "ext"}; JSON-able
  setup_worker()         -> installs stubs (once per worker process)
  harness(inst)          -> callable(ctx) executed once per feasible path (real code inside)
  replay(inst, label, vals, info) -> (reproduced: bool, text: str)  real code, no proxies
  finding_key(inst, label, vals, info) -> str   canonical scenario id for known findings
optional
  concrete_run(inst, vals) -> observation   (compared with ctx.observation on sampled paths)
  REQUIRED_LABELS / REQUIRED_WITNESS  sets that must be reached over the whole run (vacuity)
  BOUNDS, STUBS, ASSUMPTIONS, FUNCTIONS (documentation written into evidence)

Exit codes: 0 = held on everything explored; 1 = replayed violation; 2 = inconclusive.
"""
import importlib
import json
import multiprocessing as mp
import os
import random
import sys
import time
import traceback

VERIF = os.path.dirname(os.path.dirname(os.path.abspath(__file__)))
REPO = os.environ.get("VERIF_REPO", "/repo")
if VERIF not in sys.path:
    sys.path.insert(0, VERIF)
if REPO != "/repo" or True:
    # make sure `import jaxtyping` resolves to the tree under test
    if REPO not in sys.path:
        sys.path.insert(0, REPO)

EVIDENCE_DIR = os.environ.get("VERIF_EVIDENCE_DIR") or os.path.join(VERIF, "evidence")
REPLAY_DIR = os.path.join(EVIDENCE_DIR, "replays")
KNOWN = os.path.join(VERIF, "known_findings.json")


def load_known(prop):
    try:
        data = json.load(open(KNOWN))
    except FileNotFoundError:
        return {}
    out = {}
    for f in data.get("findings", []):
        if f.get("property") == prop and f.get("status", "open") == "open":
            out[f["key"]] = f
    return out


# ----------------------------------------------------------------------------- worker side
_worker_mod = None


def _worker_init(modname, repo):
    global _worker_mod
    os.environ.setdefault("PYTHONHASHSEED", "0")
    sys.setrecursionlimit(10000)
    if repo not in sys.path:
        sys.path.insert(0, repo)
    import warnings
    warnings.filterwarnings("ignore")
    _worker_mod = importlib.import_module(modname)
    if hasattr(_worker_mod, "setup_worker"):
        _worker_mod.setup_worker()


def _profile_functions(fn):
    """Run fn() collecting qualified names of functions entered under REPO/jaxtyping."""
    import threading
    seen = set()
    root = os.path.join(os.path.realpath(REPO), "jaxtyping")

    def prof(frame, event, arg):
        if event == "call":
            co = frame.f_code
            f = co.co_filename
            if f.startswith(root):
                seen.add(os.path.relpath(f, os.path.dirname(root))[:-3].replace("/", ".")
                         + ":" + co.co_qualname)

    threading.setprofile(prof)
    sys.setprofile(prof)
    try:
        r = fn()
    finally:
        sys.setprofile(None)
        threading.setprofile(None)
    return r, seen


def _run_instance(job):
    idx, group, inst, opts = job
    kill = os.environ.get("VERIF_SELFTEST_KILL")  # "<idx>:<marker file>[:always]" -- runner self-test only
    if kill and kill.split(":")[0] == str(idx):
        marker = kill.split(":")[1]
        if kill.endswith(":always") or not os.path.exists(marker):
            open(marker, "w").close()
            os.kill(os.getpid(), 9)
    from symx import core
    mod = _worker_mod
    rng = random.Random((opts["seed"] << 20) ^ idx)
    t0 = time.time()
    out = dict(idx=idx, group=group, inst=inst, violations=[], validated=0, validation_errors=[],
               samples=[], functions=[])
    try:
        h = mod.harness(inst)
        has_concrete = hasattr(mod, "concrete_run")
        p_validate = opts.get("p_validate", 0.02)
        nsample = [0]

        def on_violation(label, vals, info):
            if len(out["violations"]) >= opts.get("max_replays", 4):
                return  # enough counterexamples for this instance; do not spend time replaying more
            try:
                rep, text = mod.replay(inst, label, vals, info)
            except BaseException as e:  # noqa
                rep, text = False, "replay crashed: " + "".join(traceback.format_exception(e))[-1500:]
            key = mod.finding_key(inst, label, vals, info) if hasattr(mod, "finding_key") else label
            out["violations"].append(dict(label=label, vals=vals, info=_jsonable(info),
                                          reproduced=bool(rep), text=text, key=key))

        def on_path_end(ctx, sp):
            take_sample = nsample[0] < 2
            do_val = has_concrete and ctx.observation is not None and rng.random() < p_validate
            if not (take_sample or do_val):
                return
            model = sp.get_model()
            vals = core.model_values(model, sp.inputs)
            from checks.base import concretize
            sym_obs = _jsonable(concretize(ctx.observation, model))
            if take_sample:
                nsample[0] += 1
                out["samples"].append(dict(instance=inst, model=vals,
                                           observation=sym_obs,
                                           decisions=sp.pos))
            if do_val:
                try:
                    obs = mod.concrete_run(inst, vals)
                except BaseException as e:  # noqa
                    obs = "concrete_run crashed: " + repr(e)
                out["validated"] += 1
                if json.loads(json.dumps(_jsonable(obs))) != json.loads(json.dumps(sym_obs)):
                    out["validation_errors"].append(dict(vals=vals, symbolic=sym_obs,
                                                         concrete=_jsonable(obs)))

        kw = dict(seed=opts["seed"], max_paths=opts.get("max_paths", 200000), p_cross=opts.get("p_cross", 0.0),
                  deadline=opts.get("deadline"), on_violation=on_violation, on_path_end=on_path_end)
        if opts.get("profile") and idx == 0:
            st, fns = _profile_functions(lambda: core.explore(h, **kw))
            out["functions"] = sorted(fns)
        else:
            st = core.explore(h, **kw)
        st.pop("violations", None)
        out["stats"] = st
    except BaseException as e:  # noqa
        out["crash"] = "".join(traceback.format_exception(e))[-3000:]
    out["wall"] = time.time() - t0
    return out


def _jsonable(x):
    try:
        json.dumps(x)
        return x
    except TypeError:
        if isinstance(x, dict):
            return {str(k): _jsonable(v) for k, v in x.items()}
        if isinstance(x, (list, tuple, set, frozenset)):
            return [_jsonable(v) for v in x]
        return repr(x)


# ----------------------------------------------------------------------------- parent side

_POOL_RESTARTS = 0


def _kill_pool(pool):
    """Stop an executor without waiting for running tasks (hung or orphaned workers are killed)."""
    procs = list((getattr(pool, "_processes", None) or {}).values())
    try:
        pool.shutdown(wait=False, cancel_futures=True)
    except Exception:  # noqa
        pass
    for p in procs:
        try:
            p.kill()
        except Exception:  # noqa
            pass


def _run_pool(modname, prop, jobs, nproc, t0, budget, hard, max_restarts=3):
    """Run the instance jobs on a process pool.  `core` jobs are all submitted; `ext` jobs are
    topped up while the soft budget allows.  A worker process that dies (killed by the OS,
    native crash) breaks the executor: the unfinished jobs are then re-submitted to a fresh pool
    (at most `max_restarts` times) instead of being waited for until the hard deadline.
    Returns (results, skipped_indices) or None when inconclusive (already reported)."""
    global _POOL_RESTARTS
    from concurrent.futures import ProcessPoolExecutor
    from concurrent.futures.process import BrokenProcessPool
    ctx = mp.get_context("spawn")

    def new_pool():
        return ProcessPoolExecutor(max_workers=nproc, mp_context=ctx, initializer=_worker_init,
                                   initargs=(modname, REPO))

    queue = [j for j in jobs if j[1] == "core"]      # to submit unconditionally
    ext = [j for j in jobs if j[1] != "core"]        # to submit while the budget allows
    results, skipped = [], []
    inflight = {}
    pool = new_pool()
    try:
        while True:
            while queue:
                j = queue.pop(0)
                inflight[pool.submit(_run_instance, j)] = j
            while ext and len(inflight) < nproc * 2:
                if time.time() - t0 > budget:
                    skipped += [j[0] for j in ext]
                    ext = []
                    break
                j = ext.pop(0)
                inflight[pool.submit(_run_instance, j)] = j
            if not inflight and not ext:
                break
            done = [f for f in inflight if f.done()]
            broken = False
            for f in done:
                j = inflight.pop(f)
                exc = f.exception()
                if exc is None:
                    results.append(f.result())
                elif isinstance(exc, BrokenProcessPool):
                    broken = True
                    (queue if j[1] == "core" else ext).insert(0, j)
                else:
                    results.append(dict(idx=j[0], group=j[1], inst=j[2], crash=repr(exc)))
            if broken:
                # every other pending future of this executor is lost as well
                for f, j in list(inflight.items()):
                    if f.done() and f.exception() is None:
                        results.append(f.result())
                    else:
                        (queue if j[1] == "core" else ext).insert(0, j)
                inflight.clear()
                _kill_pool(pool)
                _POOL_RESTARTS += 1
                if _POOL_RESTARTS > max_restarts:
                    print(f"INCONCLUSIVE property={prop}: worker processes died {_POOL_RESTARTS} times "
                          f"({len(queue) + len(ext)} instance(s) unfinished)")
                    return None
                print(f"NOTE property={prop}: a worker process died; {len(queue) + len(ext)} unfinished "
                      f"instance(s) re-submitted to a fresh pool (restart {_POOL_RESTARTS})", flush=True)
                pool = new_pool()
                continue
            if not done:
                time.sleep(0.02)
            if time.time() > hard + 60:
                # a worker ignored its deadline (hang inside native code)
                print(f"INCONCLUSIVE property={prop}: {len(inflight)} instance(s) never finished (worker hang)")
                return None
    finally:
        _kill_pool(pool)
    return results, skipped


def run_check(modname, tier, seed, argv=()):
    mod = importlib.import_module(modname)
    prop = mod.PROPERTY
    t0 = time.time()
    os.makedirs(REPLAY_DIR, exist_ok=True)
    known = load_known(prop)
    budget = getattr(mod, "BUDGET_S", {"quick": 240, "thorough": 1500})[tier]
    # per-instance deadline: generous (slow / busy machines), the soft budget only gates `ext`
    hard = t0 + max(budget * 2.5, 900)
    insts = mod.instances(tier, seed)
    opts = dict(seed=seed, deadline=hard, profile=True,
                p_validate=getattr(mod, "P_VALIDATE", {"quick": 0.02, "thorough": 0.01})[tier],
                max_paths=getattr(mod, "MAX_PATHS", 300000),
                p_cross=float(os.environ.get("VERIF_CVC5_P", getattr(mod, "P_CROSS", {"quick": 0.0005, "thorough": 0.002})[tier])))
    # `ext` instances must not outlive the soft budget by much: they get a short deadline and
    # are reported as incomplete (never as passed) when they hit it
    ext_opts = dict(opts, deadline=t0 + budget * 1.25 + 10)
    jobs = [(i, g, inst, opts if g == "core" else ext_opts) for i, (g, inst) in enumerate(insts)]
    nproc = int(os.environ.get("VERIF_JOBS", "0")) or min(16, os.cpu_count() or 4)
    results = []
    skipped = []
    pre = []
    if hasattr(mod, "preflight"):
        # stub validation / engine self tests; raises on failure -> inconclusive
        try:
            pre = mod.preflight(tier) or []
        except BaseException as e:  # noqa
            print(f"INCONCLUSIVE property={prop}: preflight failed: {e!r}")
            traceback.print_exc()
            return 2
    out = _run_pool(modname, prop, jobs, nproc, t0, budget, hard)
    if out is None:
        return 2
    results, skipped = out
    return finish(mod, prop, tier, seed, t0, insts, results, skipped, known, pre)


def finish(mod, prop, tier, seed, t0, insts, results, skipped, known, pre):
    tot = dict(paths=0, decisions=0, solver_calls=0, solver_s=0.0, aborted=0, infeasible=0,
               obligations=0, cvc5_crosschecked=0, cvc5_inconclusive=0, cvc5_disagreements=0)
    labels, witness, functions = set(), set(), set()
    abort_reasons = {}
    incomplete, crashes, val_errors = [], [], []
    validated = 0
    samples = []
    new_violations, known_hits, unreproduced = [], {}, []
    for r in sorted(results, key=lambda r: r["idx"]):
        if "crash" in r:
            crashes.append((r["inst"], r["crash"]))
            continue
        st = r["stats"]
        for k in tot:
            tot[k] += st[k]
        labels |= set(st["labels"])
        witness |= set(st["witness"])
        functions |= set(r["functions"])
        for k, v in st["abort_reasons"].items():
            abort_reasons[k] = abort_reasons.get(k, 0) + v
        if st["status"] != "exhausted":
            incomplete.append((r["group"], r["inst"], st["status"]))
        validated += r["validated"]
        val_errors += [(r["inst"], e) for e in r["validation_errors"]]
        if len(samples) < 6:
            samples += r["samples"][:1]
        for v in r["violations"]:
            v = dict(v, inst=r["inst"])
            if v["key"] in known:
                known_hits.setdefault(v["key"], []).append(v)
            elif v["reproduced"]:
                new_violations.append(v)
            else:
                unreproduced.append(v)
    wall = time.time() - t0
    rc = 0
    for key, hits in known_hits.items():
        print(f"KNOWN-FINDING: property={prop} {known[key].get('what', key)} [{key}] ({len(hits)} paths)")
    seen_keys = set()
    nviol = 0
    for v in new_violations:
        if v["key"] in seen_keys:
            continue
        seen_keys.add(v["key"])
        nviol += 1
        if nviol > 5:
            continue
        path = os.path.join(REPLAY_DIR, f"{prop}_{nviol}.json")
        json.dump(dict(property=prop, module=mod.__name__, instance=v["inst"], label=v["label"],
                       vals=v["vals"], info=v["info"], key=v["key"], text=v["text"]),
                  open(path, "w"), indent=1)
        print(f"VIOLATION property={prop} replay={path}")
        print("  " + v["text"].replace("\n", "\n  ")[:3000])
        rc = 1
    if new_violations or unreproduced:
        json.dump([dict(key=v["key"], label=v["label"], inst=v["inst"], vals=v["vals"], info=v["info"],
                        reproduced=v["reproduced"]) for v in new_violations + unreproduced],
                  open(os.path.join(REPLAY_DIR, f"{prop}_all.json"), "w"), indent=1)
    problems = []
    if crashes:
        problems.append(f"{len(crashes)} instance(s) crashed: {crashes[0][0]!r}\n{crashes[0][1]}")
    if tot["aborted"]:
        problems.append(f"{tot['aborted']} path(s) aborted (unsupported operation / nondeterminism): {abort_reasons}")
    if unreproduced:
        u = unreproduced[0]
        problems.append(f"{len(unreproduced)} counterexample(s) did not reproduce on the real code "
                        f"(engine/stub/oracle bug?): {u['label']} {u['inst']!r} {u['vals']}\n{u['text'][:1500]}")
    if val_errors:
        problems.append(f"{len(val_errors)} sampled path(s): concrete re-run disagrees with symbolic run: {val_errors[0]}")
    core_incomplete = [x for x in incomplete if x[0] == "core"]
    if core_incomplete:
        problems.append(f"{len(core_incomplete)} core instance(s) not exhausted: {core_incomplete[:2]}")
    need_l = set(getattr(mod, "REQUIRED_LABELS", ())) - labels
    need_w = set(getattr(mod, "REQUIRED_WITNESS", ())) - witness
    if need_l or need_w:
        problems.append(f"vacuity: obligations never evaluated {sorted(need_l)}, witnesses never reached {sorted(need_w)}")
    if tot["paths"] == 0:
        problems.append("no path explored")
    evidence = dict(
        property_id=prop, tier=tier, seed=seed, level="model_checking",
        coverage=dict(
            states=tot["paths"], transitions=max(tot["decisions"], 1),
            traces_validated_against_impl=validated,
            samples=samples or [dict(note="no sample")],
            explanation=getattr(mod, "EXPLANATION", "") or " ".join((mod.__doc__ or "").split())[:2500],
            instances=len(results), instances_total=len(insts),
            instances_skipped_soft_budget=len(skipped),
            instances_incomplete=[_jsonable(x) for x in incomplete][:20],
            obligations_checked=tot["obligations"], obligation_labels=sorted(labels),
            witnesses_reached=sorted(witness),
            queries=tot["solver_calls"], solver_s=round(tot["solver_s"], 2),
            aborted_paths=tot["aborted"], infeasible_paths=tot["infeasible"],
            cvc5_crosschecked=tot["cvc5_crosschecked"], cvc5_no_answer=tot["cvc5_inconclusive"],
            cvc5_disagreements=tot["cvc5_disagreements"],
            functions_executed=sorted(functions),
            bounds=getattr(mod, "BOUNDS", {}).get(tier, getattr(mod, "BOUNDS", {})),
            stubs=getattr(mod, "STUBS", []),
            preflight=pre,
            known_findings_matched=sorted(known_hits),
            worker_pool_restarts=_POOL_RESTARTS,
            exhaustive=not skipped and not incomplete,
        ),
        assumptions=getattr(mod, "ASSUMPTIONS", []),
        wall_s=round(wall, 2), violations=nviol,
    )
    if hasattr(mod, "extra_evidence"):
        evidence["coverage"].update(mod.extra_evidence(tier, results))
    os.makedirs(EVIDENCE_DIR, exist_ok=True)
    json.dump(evidence, open(os.path.join(EVIDENCE_DIR, f"{prop}.json"), "w"), indent=1)
    print(f"{prop} [{tier}] instances={len(results)}/{len(insts)} paths={tot['paths']} decisions={tot['decisions']} "
          f"obligations={tot['obligations']} queries={tot['solver_calls']} solver_s={tot['solver_s']:.1f} "
          f"validated={validated} aborted={tot['aborted']} known={len(known_hits)} violations={nviol} wall={wall:.1f}s")
    if tot["cvc5_disagreements"]:
        print(f"NOTE property={prop}: cvc5 disagreed with z3 on {tot['cvc5_disagreements']} sampled obligation quer(y/ies) "
              "(recorded in the evidence; set VERIF_CVC5_STRICT=1 to make this fatal)")
    if rc == 0 and problems:
        for p in problems:
            print(f"INCONCLUSIVE property={prop}: {p}")
        return 2
    if problems:
        for p in problems:
            print(f"NOTE property={prop}: {p}")
    return rc


def replay_file(path):
    d = json.load(open(path))
    mod = importlib.import_module(d["module"])
    if hasattr(mod, "setup_replay"):
        mod.setup_replay()
    rep, text = mod.replay(d["instance"], d["label"], d["vals"], d["info"])
    print(text)
    print("REPRODUCED" if rep else "NOT REPRODUCED")
    return 1 if rep else 0


def main(argv=None):
    argv = list(sys.argv[1:] if argv is None else argv)
    if not argv:
        print("usage: check <ID> [--tier quick|thorough] [--replay path]")
        return 2
    pid = argv[0].upper()
    tier = os.environ.get("VERIF_TIER", "quick")
    if "--tier" in argv:
        tier = argv[argv.index("--tier") + 1]
    seed = int(os.environ.get("VERIF_SEED", "0") or 0)
    if "--replay" in argv:
        return replay_file(argv[argv.index("--replay") + 1])
    return run_check(f"checks.{pid.lower()}", tier, seed, argv)


if __name__ == "__main__":
    sys.exit(main())
