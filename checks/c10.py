"""C10 -- the import hook only adds decorators: everything else in the module is untouched.

Real code executed: JaxtypingTransformer (visit_Module / visit_ClassDef / visit_FunctionDef /
generic_visit), Typechecker.get_ast, ast.copy_location, ast.fix_missing_locations -- exactly the
sequence _JaxtypingLoader.source_to_code and the IPython magic perform -- and then compile().
Symbolic (solver variables): the line / column / end positions of EVERY node of the module's
AST (they flow through copy_location / fix_missing_locations symbolically; equality of the
positions after the transformation is a solver query).  Selectors (solver-branched): the module
skeleton -- leading statements (docstring incl. the empty string, other constant expressions,
__future__ imports) and a body of statements drawn from a menu (defs with 0..2 decorators, async
defs, classes with decorators and methods, nested defs, if/try/with blocks containing
definitions, lambdas, opaque statements), nesting depth <= 3.
Oracle: reference "which node gets which decorator" + "everything else identical".
The corpus part of the property (stdlib / site-packages) is another technique: not attempted.
"""
import ast
import copy
import random

import z3

from checks import base
from symx import core

PROPERTY = "C10"
TITLE = "The import hook only adds decorators: everything else in the module is untouched"

LEAD = ['"""doc"""', '""', "'x'", "1", "...", "from __future__ import annotations",
        "from __future__ import division", "b'bytes'"]
STMTS = [
    "import os",
    "x = 1",
    "def f(a, b=1):\n    return a",
    "@dec\ndef g(a):\n    'fdoc'\n    return a",
    "@dec\n@dec2(3)\ndef h(*a, **k):\n    pass",
    "async def co(a):\n    return a",
    "@dec\nasync def co2(a):\n    await a",
    "class C:\n    pass",
    "@dec\nclass D(Base):\n    x: int = 0\n    def m(self):\n        return 1\n    @staticmethod\n    def s():\n        pass",
    "@dec\n@dec2\nclass E:\n    class Inner:\n        def im(self):\n            def local():\n                pass\n            return local",
    "if cond:\n    def cf():\n        pass\nelse:\n    class CE:\n        pass",
    "try:\n    def tf():\n        pass\nexcept Exception:\n    pass\nfinally:\n    lam = lambda q: q",
    "with ctx() as c:\n    def wf():\n        yield 1",
    "lam2 = lambda a, b=2: (a, b)",
    "def outer():\n    async def inner_async():\n        def innermost():\n            pass\n    class K:\n        def km(self):\n            pass\n    return inner_async",
    "for i in y:\n    def loopf():\n        return i",
    "def gen():\n    x = yield\n    return (lambda: x)",
    "z = [q for q in y if q]",
    "def o2(c):\n    if c:\n        def in_if(a):\n            return a\n    else:\n        class InElse:\n            def m(self):\n                pass\n    try:\n        def in_try():\n            pass\n    finally:\n        pass\n    for i in c:\n        with i:\n            def in_for_with():\n                pass\n    return in_if",
    "class P:\n    if flag:\n        def cm(self):\n            while True:\n                def deep():\n                    pass\n                break",
]
CHECKERS = ["typeguard.typechecked", "beartype.beartype", None]


def instances(tier, seed):
    rng = random.Random(seed)
    out = []
    # core: leading/body statements are solver-branched selectors (None = choose)
    core_shapes = [(0, 0), (1, 0), (2, 0), (3, 0), (0, 1), (1, 1), (2, 1), (0, 2)]
    if tier == "thorough":
        core_shapes += [(1, 2), (3, 1), (2, 2)]
    for nlead, nbody in core_shapes:
        for ck in range(len(CHECKERS)):
            if ck and nlead + nbody > 2:
                continue
            out.append(("core", dict(lead=[None] * nlead, body=[None] * nbody, checker=ck)))
    # the loader's own source handling (decoding: BOM, coding cookies, newlines)
    out.append(("core", dict(kind="loader")))
    # ext: seeded concrete skeletons (positions stay symbolic)
    n = 1500 if tier == "quick" else 20000
    for _ in range(n):
        nlead = rng.choice([0, 1, 1, 2, 2, 3])
        nbody = rng.choice([1, 2, 3, 3, 4])
        out.append(("ext", dict(lead=[rng.randrange(len(LEAD)) for _ in range(nlead)],
                                body=[rng.randrange(len(STMTS)) for _ in range(nbody)],
                                checker=rng.randrange(len(CHECKERS)))))
    return out


BOUNDS = dict(leading="core: all choices of 0..3 leading statements among %d (docstrings incl. the empty string, constant expressions, __future__ imports)" % len(LEAD),
              body="core: all choices of 0..2 body statements among %d menu entries (nesting depth <= 3 inside the entries) for the (lead, body) counts (0,0) (1,0) (2,0) (3,0) (0,1) (1,1) (2,1) (0,2) [thorough: + (1,2) (3,1) (2,2)]; ext: seeded concrete skeletons of up to 3 leading + 4 body statements" % len(STMTS),
              positions="lineno / col_offset / end_lineno / end_col_offset of every node: unbounded solver variables",
              checkers=[str(c) for c in CHECKERS],
              loader="7 encoded sources (UTF-8 plain / non-ASCII / BOM, latin-1 and cp1252 coding cookies, CRLF, docstring+__future__) through _JaxtypingLoader.source_to_code vs the plain SourceFileLoader")
STUBS = []
ASSUMPTIONS = ["module skeleton is a solver-branched selector over a menu (enumerative residue); only positions are value variables",
               "combinations the Python grammar forbids (e.g. a __future__ import after another statement) are skipped: ast.parse / compile of the *untransformed* module must succeed",
               "the stdlib/site-packages corpus run named by the property is not attempted (not this family of technique)",
               "an added decorator must carry the line of its own def/class (column not compared); co_firstlineno is compared for function code objects only -- "
               "the body code object of an already decorated class starts at the `class` line instead of its first decorator's line (not reachable once the class exists)"]
REQUIRED_LABELS = {"import-placement", "decorators", "untouched", "positions", "compiles", "future-flags", "docstring", "loader-decoding", "firstlineno"}
REQUIRED_WITNESS = {"has-def", "has-class", "has-async", "no-defs", "empty-docstring"}
BUDGET_S = {"quick": 120, "thorough": 900}
POS = ("lineno", "col_offset", "end_lineno", "end_col_offset")


def setup_worker():
    pass


def snapshot(tree):
    """(node, {field: value-or-childlist-copy}, {pos attr: value}) for every node, in walk order"""
    snap = []
    for node in ast.walk(tree):
        fields = {}
        for f, v in ast.iter_fields(node):
            fields[f] = list(v) if isinstance(v, list) else v
        pos = {a: getattr(node, a) for a in POS if hasattr(node, a)}
        snap.append((node, fields, pos))
    return snap


def is_added_decorator(n):
    try:
        return isinstance(n, ast.Call) and ast.unparse(n.func) == "jaxtyping.jaxtyped" and \
            [k.arg for k in n.keywords] == ["typechecker"]
    except Exception:
        return False


def is_added_import(n):
    return isinstance(n, ast.Import) and [a.name for a in n.names] == ["jaxtyping"] and n.names[0].asname is None


ENCODED = [
    ("utf8-plain", "S = 'abc'\ndef f(x: int) -> 'int':\n    return x\n".encode("utf-8")),
    ("utf8-nonascii", "S = 'été'\ndef f(x):\n    return x\n".encode("utf-8")),
    ("utf8-bom", b"\xef\xbb\xbf" + "S = 'été'\ndef f(x):\n    return x\n".encode("utf-8")),
    ("latin1-cookie", "# -*- coding: latin-1 -*-\nS = 'été'\ndef f(x):\n    return x\n".encode("latin-1")),
    ("cp1252-cookie", "# coding: cp1252\nS = 'Ã©tÃ©'\ndef f(x):\n    return x\n".encode("cp1252")),
    ("crlf", "S = 'abc'\r\ndef f(x):\r\n    return x\r\n".encode("utf-8")),
    ("cr-only-docstring", '"""doc"""\nfrom __future__ import annotations\nS = 1\n'.encode("utf-8")),
]


def scenario_loader(inst, V):
    """_JaxtypingLoader.source_to_code must read the file exactly as the plain loader does."""
    import importlib.machinery
    import os
    import tempfile
    from jaxtyping._import_hook import _JaxtypingLoader, Typechecker
    label, data = ENCODED[V.choose("enc", len(ENCODED))]
    d = tempfile.mkdtemp(prefix="verif_c10_")
    path = os.path.join(d, "m.py")
    try:
        open(path, "wb").write(data)

        def run(loader):
            try:
                code = loader.source_to_code(data, path)
                ns = {}
                exec(code, ns)
                f = ns.get("f")
                f = getattr(f, "__wrapped__", f)
                # __future__ flags the module was compiled under, and its (unevaluated?) annotations
                flags = (f.__code__.co_flags & (0x1000000 | 0x20000)) if f is not None else None
                anns = sorted((k, repr(v)) for k, v in getattr(f, "__annotations__", {}).items())
                return ("ok", ns.get("S"), ns.get("__doc__"), flags, anns, code.co_flags & (0x1000000 | 0x20000))
            except Exception as e:  # noqa
                return ("EXC:" + type(e).__name__, None, None, None, None, None)
        plain = run(importlib.machinery.SourceFileLoader("m", path))
        hooked = run(_JaxtypingLoader("m", path, typechecker=Typechecker(None)))
    finally:
        import shutil
        shutil.rmtree(d, ignore_errors=True)
    V.check("loader-decoding", plain == hooked, encoding=label, plain=repr(plain), hooked=repr(hooked))
    return dict(encoding=label, same=plain == hooked)


def scenario(inst, V):
    if inst.get("kind") == "loader":
        return scenario_loader(inst, V)
    from jaxtyping._import_hook import JaxtypingTransformer, Typechecker
    lead = [LEAD[V.choose(f"l{i}", len(LEAD)) if x is None else x] for i, x in enumerate(inst["lead"])]
    body = [STMTS[V.choose(f"b{i}", len(STMTS)) if x is None else x] for i, x in enumerate(inst["body"])]
    src = "\n".join(lead + body) + "\n"
    try:
        plain_code = compile(src, "<m>", "exec", dont_inherit=True)
        tree = ast.parse(src)
    except SyntaxError:
        raise core.PathAbort("not a valid module")
    nlead_doc = 0
    # reference: the leading run = optional docstring followed by __future__ imports
    stm = tree.body
    i = 0
    if stm and isinstance(stm[0], ast.Expr) and isinstance(stm[0].value, ast.Constant) and isinstance(stm[0].value.value, str):
        i = 1
        if stm[0].value.value == "":
            V.reach("empty-docstring")
    while i < len(stm) and isinstance(stm[i], ast.ImportFrom) and stm[i].module == "__future__":
        i += 1
    min_import_index = i
    # symbolic positions
    orig_pos = {}
    sym2conc = {}
    k = 0
    for node in ast.walk(tree):
        for a in POS:
            if hasattr(node, a) and getattr(node, a) is not None:
                orig_pos[(id(node), a)] = getattr(node, a)
                if not V.concrete:
                    sv = V.int(f"p{k}", None)
                    sym2conc[id(sv)] = (sv, getattr(node, a))
                    setattr(node, a, sv)
                k += 1
    snap = snapshot(tree)
    ndefs = sum(isinstance(n, ast.FunctionDef) for n, _, _ in snap)
    ncls = sum(isinstance(n, ast.ClassDef) for n, _, _ in snap)
    nasync = sum(isinstance(n, ast.AsyncFunctionDef) for n, _, _ in snap)
    V.reach("has-def" if ndefs else "no-defs")
    if ncls:
        V.reach("has-class")
    if nasync:
        V.reach("has-async")
    tc = Typechecker(CHECKERS[inst["checker"]])
    out = JaxtypingTransformer(typechecker=tc).visit(tree)
    ast.fix_missing_locations(out)
    V.check("untouched", out is tree, what="visit returns the module node")
    # --- module body: one import, placed after docstring / __future__
    imports = [j for j, s in enumerate(tree.body) if is_added_import(s) and all(s is not n for n, _, _ in snap)]
    want_import = (ndefs + ncls + nasync) > 0 or len(snap[0][1]["body"]) > min_import_index
    if len(imports) == 0:
        V.check("import-placement", not (ndefs + ncls), imports=0, why="decorators were added but jaxtyping is not imported")
    else:
        V.check("import-placement", len(imports) == 1 and imports[0] >= min_import_index, imports=imports,
                min_index=min_import_index)
    # --- every original node: same fields, same children (minus the additions), same positions
    pos_conds = []
    ok_fields = True
    ok_decos = True
    why = ""
    expected_hash = tc.get_hash()
    added = []
    for node, fields, pos in snap:
        for f, old in fields.items():
            new = getattr(node, f, None)
            if isinstance(old, list):
                new = list(new)
                if f == "decorator_list" and isinstance(node, ast.FunctionDef):
                    if not (len(new) == len(old) + 1 and all(a is b for a, b in zip(new, old)) and is_added_decorator(new[-1])):
                        ok_decos, why = False, f"FunctionDef {node.name}: decorator must be appended last"
                    elif expected_hash not in ast.unparse(new[-1]):
                        ok_decos, why = False, "decorator does not refer to this hook's typechecker"
                    else:
                        added.append((node, new[-1], pos))
                    continue
                if f == "decorator_list" and isinstance(node, ast.ClassDef):
                    if not (len(new) == len(old) + 1 and all(a is b for a, b in zip(new[1:], old)) and is_added_decorator(new[0])):
                        ok_decos, why = False, f"ClassDef {node.name}: decorator must be inserted first"
                    else:
                        added.append((node, new[0], pos))
                    continue
                if f == "body" and isinstance(node, ast.Module):
                    new = [s for s in new if not (is_added_import(s) and all(s is not n for n, _, _ in snap))]
                if not (len(new) == len(old) and all(a is b for a, b in zip(new, old))):
                    ok_fields, why = False, f"{type(node).__name__}.{f} changed"
            else:
                if new is not old:
                    ok_fields, why = False, f"{type(node).__name__}.{f} changed"
        for a, v in pos.items():
            nv = getattr(node, a, None)
            if nv is v:
                continue
            if nv is None or v is None:
                ok_fields, why = False, f"{type(node).__name__}.{a} dropped"
            else:
                pos_conds.append(core.lift(nv) == core.lift(v))
    # an added decorator sits on the line of its own def / class (it decides co_firstlineno of an
    # otherwise undecorated function) and is a node of its own
    for node, deco, pos in added:
        if getattr(deco, "lineno", None) is None or pos.get("lineno") is None:
            ok_decos, why = False, f"{node.name}: added decorator without a line number"
        else:
            pos_conds.append(core.lift(deco.lineno) == core.lift(pos["lineno"]))
    if len({id(d) for _, d, _ in added}) != len(added):
        ok_decos, why = False, "one decorator node shared between several definitions"
    V.check("decorators", ok_decos, why=why)
    V.check("untouched", ok_fields, why=why)
    V.check("positions", z3.And(*pos_conds) if pos_conds else True)
    # --- compile with the original concrete positions
    for node, _, _ in snap:
        for a in POS:
            if (id(node), a) in orig_pos:
                setattr(node, a, orig_pos[(id(node), a)])
    for n in ast.walk(tree):
        for a in POS:
            v = getattr(n, a, None)
            if isinstance(v, core.SymInt):
                # a position copied from an original node: give it that node's concrete value
                setattr(n, a, sym2conc[id(v)][1] if id(v) in sym2conc else (1 if "lineno" in a else 0))
    try:
        code = compile(tree, "<m>", "exec", dont_inherit=True)
        compiled = True
    except Exception as e:  # noqa
        compiled, code = False, None
        why = repr(e)
    V.check("compiles", compiled, why=why if not compiled else "")
    if compiled:
        FUT = 0x1000000 | 0x20000  # CO_FUTURE_ANNOTATIONS | CO_FUTURE_DIVISION
        V.check("future-flags", (code.co_flags & FUT) == (plain_code.co_flags & FUT))
        V.check("firstlineno", _fn_lines(code) == _fn_lines(plain_code), hooked=_fn_lines(code), plain=_fn_lines(plain_code))
        doc_new = ast.get_docstring(tree, clean=False)
        V.check("docstring", doc_new == ast.get_docstring(ast.parse(src), clean=False), got=repr(doc_new))
    return dict(src=src, compiled=compiled, imports=imports)


def _fn_lines(code, out=None):
    """(name, first line) of every function-like code object, in order (class bodies are skipped:
    their code object is not reachable once the class exists)"""
    out = [] if out is None else out
    for c in code.co_consts:
        if hasattr(c, "co_firstlineno"):
            if c.co_flags & 0x1:
                out.append((c.co_name, c.co_firstlineno))
            _fn_lines(c, out)
    return out


def _key(inst, label, vals, info):
    return f"{label}|{inst!r}|{sorted((k, v) for k, v in vals.items() if k[0] in 'lb')!r}"


harness, concrete_run, replay, finding_key = base.make_api(scenario, _key)
