"""C11 -- the import hook instruments exactly the named packages, only while installed.

(a) 'string': the real _JaxtypingFinder.should_instrument runs on *symbolic strings* (hook
    names and the imported module's dotted name are solver variables): instrumented iff the
    module name equals a hook name or starts with hook name + '.', for all strings in bounds.
(b) 'seq': solver-branched operation sequences (install(names, checker) / uninstall / leave the
    with-block / import(name)) with up to two hooks alive, executed for real: real
    install_import_hook, real sys.meta_path, real importlib imports of a generated package
    forest on disk (siblings with common string prefixes, nested sub-packages, modules importing
    each other); after every import the module's functions are probed for *which* typechecker
    (if any) instruments them.  Oracle: first live hook in sys.meta_path order naming the module
    or one of its parent packages; modules are only affected on first import.  No symbolic
    values here: names come from a look-alike menu because import needs hashable real strings
    (enumerative residue, said plainly).
(c) 'pytest': the --jaxtyping-packages option string through the real pytest_configure.
"""
import importlib
import os
import random
import shutil
import sys
import tempfile

import z3

from checks import base
from symx import core, symstr as S

PROPERTY = "C11"
TITLE = "The import hook instruments exactly the named packages, only while installed"

ALPHA = "ab._"
MODS = ["vfoo", "vfoo.bar", "vfoo.bar.deep", "vfoo.imp", "vfoobar", "vfoobar.sub", "vfo", "vfoo_x", "vbar.baz", "vbar"]
HOOKSETS = [["vfoo"], ["vfoo.bar"], ["vfoobar"], ["vfo"], ["vbar.baz", "vfoo"], ["vfoo", "vfoobar"], ["vbar"], ["vfoo.bar.deep"], []]
CHECKERS = ["typeguard.typechecked", "beartype.beartype", None]
_FOREST = [None]


def make_forest():
    if _FOREST[0] and os.path.isdir(_FOREST[0]):
        return _FOREST[0]
    d = tempfile.mkdtemp(prefix="verif_c11_")
    body = "def f(x: int):\n    return x\n"

    def w(rel, text):
        p = os.path.join(d, rel)
        os.makedirs(os.path.dirname(p), exist_ok=True)
        open(p, "w").write(text)
    w("vfoo/__init__.py", body)
    w("vfoo/bar/__init__.py", body)
    w("vfoo/bar/deep.py", body)
    w("vfoo/imp.py", "import vfoobar\nfrom . import bar\nimport vfoo_x\n" + body)
    w("vfoobar/__init__.py", body)
    w("vfoobar/sub.py", body)
    w("vfo.py", body)
    w("vfoo_x.py", body)
    w("vbar/__init__.py", body)
    w("vbar/baz.py", body)
    _FOREST[0] = d
    return d


def setup_worker():
    import atexit
    d = make_forest()
    if d not in sys.path:
        sys.path.insert(0, d)
    atexit.register(lambda: shutil.rmtree(d, ignore_errors=True))


def instances(tier, seed):
    rng = random.Random(seed)
    out = []
    for nh in (1, 2):
        for ln in (2, 3, 4):
            for lm in range(1, 8 if tier == "quick" else 9):
                g = "core" if (nh == 1 or (ln <= 3 and lm <= 6)) else "ext"
                out.append((g, dict(kind="string", nhooks=nh, hlen=ln, mlen=lm)))
    n = 5 if tier == "quick" else 6
    for a in range(len(HOOKSETS)):
        for b in range(len(HOOKSETS)):
            g = "core" if (tier == "thorough" or rng.random() < 0.5) else "ext"
            ca, cb = rng.randrange(3), rng.randrange(3)
            out.append((g, dict(kind="seq", hookA=a, hookB=b, ckA=ca, ckB=cb, nops=5)))
            if tier == "thorough":
                # the longer template (re-install + third import) runs as far as the budget allows
                out.append(("ext", dict(kind="seq", hookA=a, hookB=b, ckA=ca, ckB=cb, nops=6)))
    for a in range(len(HOOKSETS) - 1):
        out.append(("core", dict(kind="seq", hookA=a, hookB=a, ckA=a % 3, ckB=a % 3, nops=5)))
    for opt in ("vfoo,typeguard.typechecked", "vfoo, vbar.baz ,beartype.beartype", "vfoobar,vfo,typeguard.typechecked",
                "vfoo", ""):
        out.append(("core", dict(kind="pytest", option=opt)))
    for n in (1, 2, 3):
        out.append(("core", dict(kind="ipython", nmagics=n)))
    out.sort(key=lambda x: x[0] != "core")
    return out


BOUNDS = dict(ipython="the %jaxtyping.typechecker magic issued 1..3 times with solver-branched typechecker strings in a real IPython shell; a function defined in a cell afterwards must be instrumented by the last one only",
              string="1..2 hook names of length 2..4 and a module name of length 1..7 (thorough 8), all characters solver variables over %r" % ALPHA,
              seq="two hook configurations (9 name sets incl. the empty set x 3 checkers); sequence template: install A; optionally install B; import m1; optionally uninstall A or B (uninstall() or leaving the with-block); import m2; [thorough: optionally re-install A or B; import m3] -- every optional step and every imported module (one of %d modules of a 10-module forest) is a solver-branched choice" % len(MODS),
              pytest="5 option strings through pytest_configure")
STUBS = ["(a) none beyond SymStr; (b) none: real imports of a generated package forest in a temporary directory; (c) a minimal pytest config object with getoption()"]
ASSUMPTIONS = ["(b) is enumeration of operation sequences over a name menu (no value variables): imports need real hashable strings",
               "the IPython magic route concerns the source transformer (C10), it takes no package names",
               "ASCII names"]
REQUIRED_LABELS = {"should-instrument", "instrumentation", "pytest-route", "ipython-route"}
REQUIRED_WITNESS = {"si-True", "si-False", "instr-typeguard", "instr-beartype", "instr-none", "instr-plain", "two-hooks-alive"}
BUDGET_S = {"quick": 150, "thorough": 900}


def preflight(tier):
    """Second engine (thorough tier only, informational): CrossHair on should_instrument."""
    if tier != "thorough":
        return []
    import subprocess
    import tempfile
    import textwrap
    exe = os.path.join(os.path.dirname(sys.executable), "crosshair")
    if not os.path.exists(exe):
        return ["CrossHair not installed: second-engine cross-check skipped"]
    from checks import common
    src = textwrap.dedent(f'''
        import sys
        sys.path.insert(0, {common.REPO!r})
        from jaxtyping._import_hook import _JaxtypingFinder

        def instrumented(hook: str, module: str) -> bool:
            """
            pre: len(hook) <= 4 and len(module) <= 6
            post: __return__ == (module == hook or module.startswith(hook + "."))
            """
            return _JaxtypingFinder([hook], None, None).should_instrument(module)
    ''')
    d = tempfile.mkdtemp(prefix="verif_c11_ch_")
    try:
        path = os.path.join(d, "ch_should_instrument.py")
        open(path, "w").write(src)
        try:
            r = subprocess.run([exe, "check", "--report_all", "--per_condition_timeout", "30", path],
                               capture_output=True, text=True, timeout=120)
            out = (r.stdout + r.stderr).strip().splitlines()
            verdict = out[-1][-160:] if out else "(no output)"
        except Exception as e:  # noqa
            verdict = "CrossHair run failed: " + repr(e)
    finally:
        shutil.rmtree(d, ignore_errors=True)
    return ["CrossHair (second engine) on should_instrument, |hook|<=4, |module|<=6: " + verdict]


def purge():
    for m in list(sys.modules):
        if m.split(".")[0] in ("vfoo", "vfoobar", "vfo", "vfoo_x", "vbar"):
            del sys.modules[m]
    from jaxtyping._import_hook import _JaxtypingFinder
    sys.meta_path[:] = [f for f in sys.meta_path if not isinstance(f, _JaxtypingFinder)]
    importlib.invalidate_caches()


def classify(mod):
    """which instrumentation does module `mod` carry?  'plain' | 'none' | 'typeguard' | 'beartype'"""
    from jaxtyping import TypeCheckError
    f = mod.f
    try:
        f("not an int")
    except TypeCheckError as e:
        c = e.__cause__
        while c is not None and type(c).__module__.startswith("jaxtyping"):
            c = c.__cause__
        m = type(c).__module__ if c is not None else ""
        return "beartype" if m.startswith("beartype") else "typeguard"
    except Exception as e:  # noqa
        return "EXC:" + type(e).__name__
    return "none" if hasattr(f, "__wrapped__") else "plain"


def expected(name, live):
    """live: list of (names, checker) in sys.meta_path order"""
    for names, ck in live:
        for n in names:
            if name == n or name.startswith(n + "."):
                return {None: "none"}.get(ck, ck.split(".")[0] if ck else "none")
    return "plain"


def scenario(inst, V):
    import jaxtyping as jt
    from jaxtyping._import_hook import _JaxtypingFinder, Typechecker
    kind = inst["kind"]
    if kind == "string":
        hooks = [V.str(f"h{i}", inst["hlen"], ALPHA) for i in range(inst["nhooks"])]
        m = V.str("m", inst["mlen"], ALPHA)
        # the finder as the public installer creates it (typechecker None: nothing is imported)
        before = list(sys.meta_path)
        mgr = jt.install_import_hook(list(hooks), None)
        try:
            finder = [f for f in sys.meta_path if all(f is not b for b in before)][0]
            got = finder.should_instrument(m)
        finally:
            mgr.uninstall()
        if not isinstance(got, bool):
            got = bool(got)
        conds = []
        for h in hooks:
            e1 = (m == h)
            e2 = m.startswith(h + ".") if isinstance(m, str) else False
            for e in (e1, e2):
                conds.append(e.e if isinstance(e, core.SymBool) else z3.BoolVal(bool(e)))
        exp = z3.Or(*conds)
        V.reach(f"si-{got}")
        V.check("should-instrument", exp == got, got=got)
        return dict(got=got)
    if kind == "ipython":
        return scenario_ipython(inst, V)
    make_forest()
    purge()
    try:
        if kind == "pytest":
            from jaxtyping import _pytest_plugin as pp

            class Cfg:
                def getoption(self, name):
                    return inst["option"] or None
            try:
                pp.pytest_configure(Cfg())
                err = None
            except Exception as e:  # noqa
                err = type(e).__name__
            parts = [p.strip() for p in inst["option"].split(",")] if inst["option"] else []
            res = {}
            if not parts:
                live = []
            elif len(parts) == 1:
                live = None  # a single element is the typechecker with no packages: any outcome but instrumentation
            else:
                live = [(parts[:-1], parts[-1])]
            ok = True
            for name in MODS:
                mod = importlib.import_module(name)
                got = classify(mod)
                res[name] = got
                want = expected(name, live) if live is not None else "plain"
                if got != want:
                    ok = False
            V.check("pytest-route", ok and err is None, result=res, err=err, option=inst["option"])
            return dict(res=res)
        # ---- operation sequences with real imports
        cfg = {"A": (HOOKSETS[inst["hookA"]], CHECKERS[inst["ckA"]]), "B": (HOOKSETS[inst["hookB"]], CHECKERS[inst["ckB"]])}
        managers = {}
        live = []     # reference: (key, names, checker) most recent first
        trace = []
        def install(key):
            if key in managers:
                return
            names, ck = cfg[key]
            managers[key] = jt.install_import_hook(list(names), ck)
            live.insert(0, (key, names, ck))
            if len(live) == 2:
                V.reach("two-hooks-alive")
            trace.append(f"install{key}")

        def uninstall(key, how):
            if key not in managers:
                return
            if how == 1:
                managers.pop(key).uninstall()
            elif how == 2:
                # the with-block is left through an exception
                managers.pop(key).__exit__(ValueError, ValueError("boom"), None)
            else:
                managers.pop(key).__exit__(None, None, None)
            live[:] = [x for x in live if x[0] != key]
            trace.append(f"uninstall{key}")

        def do_import(tag):
            name = MODS[V.choose(tag, len(MODS))]
            before = set(sys.modules)
            importlib.import_module(name)
            # every module imported for the first time by this step (parents, transitive imports)
            newly = sorted(m for m in set(sys.modules) - before if m.split(".")[0].startswith("v"))
            for nm in newly:
                got = classify(sys.modules[nm])
                want = expected(nm, [(x[1], x[2]) for x in live])
                V.reach("instr-" + got)
                V.check("instrumentation", got == want, module=nm, got=got, expected=want, trace=trace + [f"import {name}"])
            trace.append(f"import {name}")

        # template: install A; maybe install B; import; maybe uninstall A or B; import;
        # (longer template) maybe re-install A or B; import
        install("A")
        if V.choose("insB", 2):
            install("B")
        do_import("m1")
        u = V.choose("un", 3)
        if u:
            uninstall("AB"[u - 1], V.choose("how", 3))
        do_import("m2")
        if inst["nops"] > 5:
            r = V.choose("re", 3)
            if r:
                install("AB"[r - 1])
            do_import("m3")
        return dict(trace=trace)
    finally:
        purge()


_IP = [None]


def scenario_ipython(inst, V):
    from jaxtyping._import_hook import JaxtypingTransformer
    if _IP[0] is None:
        from IPython.testing.globalipapp import start_ipython
        ip = start_ipython()
        ip.run_cell(raw_cell="import jaxtyping")
        ip.run_line_magic(magic_name="load_ext", line="jaxtyping")
        _IP[0] = ip
    ip = _IP[0]
    strings = ["typeguard.typechecked", "beartype.beartype"]
    last = None
    for i in range(inst["nmagics"]):
        last = strings[V.choose(f"mg{i}", len(strings))]
        ip.run_line_magic(magic_name="jaxtyping.typechecker", line=last)
    ntr = sum(isinstance(t, JaxtypingTransformer) for t in ip.ast_transformers)
    ip.run_cell(raw_cell="def vprobe(x: int):\n    return x\n").raise_error()
    fn = ip.user_global_ns["vprobe"]

    class M:
        f = staticmethod(fn)
    got = classify(M)
    V.check("ipython-route", ntr == 1 and got == last.split(".")[0], transformers=ntr, got=got, last=last)
    return dict(got=got, transformers=ntr)


def _key(inst, label, vals, info):
    return f"{label}|{inst!r}|{info.get('module')}"


harness, concrete_run, replay, finding_key = base.make_api(scenario, _key)
