"""C07 -- on well-typed calls a decorated function is indistinguishable from the original.

Real code executed symbolically: jaxtyped's new-style route (inspect.signature handling,
_make_fn_with_signature incl. its exec'd source, _gensym, wrapped_fn / wrapped_fn_impl,
param binding, the return-value re-check through `kwargs[output_name] = out`), descriptor
unwrapping (classmethod / staticmethod / property), through real typeguard / beartype.
Symbolic: shapes of the array-annotated parameters and of the result (so well-typed and
ill-typed calls are both solver-chosen); selectors: signature (all five parameter kinds,
defaults, names colliding with generated identifiers), callable and descriptor kind, call form
(positional / keyword / missing / surplus / duplicate / extra keywords named like generated
identifiers).  Oracle: the undecorated function called with the same arguments.
Second, string-level obligation: _gensym(names, prefix) returns prefix+digits not in names,
for symbolic name collections.
"""
import inspect
import itertools
import random

import z3

from checks import base, c01, fnlib
from symx import core, symstr as S

PROPERTY = "C07"
TITLE = "On well-typed calls a decorated function is indistinguishable from the original"

# parameter: (name, kind, has_default, ann)  kind in PO, PK, VP, KO, VK ; ann in None,'arr','obj'
SIGS = [
    [("x", "PK", 0, "arr"), ("y", "PK", 0, "arr")],
    [("x", "PO", 0, "arr"), ("y", "PK", 1, None), ("z", "KO", 0, "arr")],
    [("x", "PK", 0, "arr"), ("args", "VP", 0, None), ("k", "KO", 1, "arr"), ("kwargs", "VK", 0, None)],
    [("T0", "PK", 0, "arr"), ("default0", "PK", 1, None), ("ret0", "KO", 1, None)],
    [("ret0", "PK", 0, "arr"), ("ret1", "PK", 0, "arr"), ("T1", "KO", 0, None)],
    [("x", "PK", 0, "arr"), ("kwargs", "VK", 0, None)],
    [("check_single_arg", "PK", 0, "arr"), ("f", "PK", 0, "arr")],
    [("self", "PK", 0, None), ("x", "PK", 0, "arr"), ("y", "KO", 1, "arr")],
    [("a", "PO", 0, "arr"), ("b", "PO", 1, "arr")],
    [("x", "PK", 1, "arr")],
    [],
    [("args", "VP", 0, "arr")],
    [("x", "PK", 0, "arr"), ("T0", "VK", 0, None)],
    [("x", "PK", 0, "arr"), ("ret0", "VP", 0, None), ("default1", "KO", 0, "arr")],
    [("x", "PO", 0, None), ("y", "PO", 0, None), ("z", "PK", 0, "arr"), ("w", "KO", 0, None)],
    [("x", "PO", 0, "arr"), ("kw", "VK", 0, None)],
    [("self", "PO", 0, None), ("x", "PO", 1, "arr"), ("k", "KO", 0, "arr"), ("kwargs", "VK", 0, None)],
    # names a wrapper is likely to use for its own bookkeeping
    [("x", "PK", 0, "arr"), ("bound", "PK", 1, None), ("memos", "KO", 1, None), ("kw", "VK", 0, None)],
    [("fn", "PK", 0, "arr"), ("args", "PK", 1, None), ("kwargs", "KO", 0, "arr"), ("out", "KO", 1, None)],
]
INTERNAL_NAMES = ["bound", "memos", "args", "kwargs", "fn", "out", "typechecker", "module", "param_fn", "full_fn",
                  "param_signature", "full_signature", "output_name", "self", "cls"]


class AlwaysEq:
    """a default value that compares equal to everything (like unittest.mock.ANY)"""

    def __eq__(self, other):
        return True

    def __ne__(self, other):
        return False

    __hash__ = object.__hash__


class _NoTruth:
    def __bool__(self):
        raise ValueError("the truth value of this comparison is ambiguous")


class AmbiguousEq:
    """a default value whose == yields something without a truth value (like a NumPy array)"""

    def __eq__(self, other):
        return _NoTruth()

    __ne__ = __eq__
    __hash__ = object.__hash__
CALLABLES = ["def", "method", "classmethod", "staticmethod", "property", "lambda", "async", "def-str"]


def instances(tier, seed):
    rng = random.Random(seed)
    out = []
    for n in range(0, 4):
        out.append(("core", dict(kind="gensym", nnames=n, maxlen=4 if tier == "quick" else 5)))
    for si, sig in enumerate(SIGS):
        for tc in ("typeguard", "beartype"):
            for ret in (True, False):
                g = "core" if (ret or tier == "thorough") else "ext"
                out.append((g, dict(kind="sig", sig=si, tc=tc, ret=ret, callable="def")))
    for c in CALLABLES[1:]:
        for tc in ("typeguard", "beartype"):
            out.append(("core", dict(kind="sig", sig=7 if c in ("method", "classmethod") else 0, tc=tc,
                                     ret=(c != "async"), callable=c)))
    out.append(("core", dict(kind="sig", sig=0, tc="typeguard", ret=True, callable="async")))
    return out


BOUNDS = dict(signatures="%d signatures (all five parameter kinds, defaults, names colliding with T0/default0/ret0/ret1/check_single_arg/the function's own name/self/args/kwargs/bound/memos/fn/out; non-array defaults with always-true and truth-less ==)" % len(SIGS),
              callables=CALLABLES, typecheckers=["typeguard", "beartype"],
              calls="per signature: canonical positional, all-keyword, missing required, surplus positional, unexpected keyword, duplicate, and (with **kwargs) extra keywords named ret0/T0/default0/x and 15 names a wrapper may use internally",
              shapes="array parameters rank 1, result rank 1, sizes unbounded (consistent iff all equal)",
              gensym="collections of 0..3 symbolic names of length <=4 (thorough 5) over the alphabet 'Tret012d'")
STUBS = c01.STUBS + ["_gensym: a list-backed set stand-in whose __contains__ is element-wise (symbolic) string equality replaces the frozenset argument"]
ASSUMPTIONS = ["parameter names are selectors from a menu (the synthesised source goes through exec/compile)",
               "non-binding calls: same exception class (TypeError itself, not TypeCheckError); message wording is not compared",
               "coroutine functions: the coroutine object returned by the call is awaited by the harness"]
REQUIRED_LABELS = {"same-outcome", "body-count", "metadata", "nonbinding-typeerror", "illtyped-not-run"}
REQUIRED_WITNESS = {"well-typed", "ill-typed", "non-binding"}
BUDGET_S = {"quick": 150, "thorough": 900}
setup_worker = c01.setup_worker
preflight = c01.preflight


class SymSet:
    """stand-in for frozenset[str] with symbolic members (no hashing)"""

    def __init__(self, items):
        self.items = list(items)

    def __contains__(self, x):
        for it in self.items:
            if x == it:
                return True
        return False

    def __or__(self, o):
        return SymSet(self.items + list(o.items if isinstance(o, SymSet) else o))


REC = {"calls": 0, "got": None, "ret": None}


def _record(loc):
    REC["calls"] += 1
    REC["got"] = dict(loc)
    return REC["ret"]


def make_source(sig, name, ret, is_async=False, is_lambda=False, stringify=False):
    parts = []
    seen_po = any(p[1] == "PO" for p in sig)
    last_po = max([i for i, p in enumerate(sig) if p[1] == "PO"], default=-1)
    star_done = any(p[1] == "VP" for p in sig)
    for i, (pn, kind, dflt, ann) in enumerate(sig):
        a = {"arr": ": 'A'" if stringify else ": A", "obj": ": object", None: ""}[ann]
        if is_lambda:
            a = ""
        d = f" = D_{pn}" if dflt else ""
        if kind == "KO" and not star_done:
            parts.append("*")
            star_done = True
        pre = {"VP": "*", "VK": "**"}.get(kind, "")
        parts.append(f"{pre}{pn}{a}{d}")
        if i == last_po:
            parts.append("/")
    args = ", ".join(parts)
    if is_lambda:
        return f"{name} = lambda {args}: _record(locals())\n"
    r = (" -> 'A'" if stringify else " -> A") if ret else ""
    return f"{'async ' if is_async else ''}def {name}({args}){r}:\n    'doc of {name}'\n    return _record(locals())\n"


def call_forms(sig, vals, extra_kw):
    """list of (label, args, kwargs)"""
    pos = [p for p in sig if p[1] in ("PO", "PK")]
    ko = [p for p in sig if p[1] == "KO"]
    has_vp = any(p[1] == "VP" for p in sig)
    has_vk = any(p[1] == "VK" for p in sig)
    forms = []
    forms.append(("canonical", [vals[p[0]] for p in pos], {p[0]: vals[p[0]] for p in ko}))
    forms.append(("keywords", [vals[p[0]] for p in pos if p[1] == "PO"],
                  {p[0]: vals[p[0]] for p in pos + ko if p[1] != "PO"}))
    req = [p for p in pos + ko if not p[2]]
    if req:
        drop = req[-1][0]
        forms.append(("missing", [vals[p[0]] for p in pos if p[0] != drop and p[1] == "PO"],
                      {p[0]: vals[p[0]] for p in pos + ko if p[0] != drop and p[1] != "PO"}))
    forms.append(("surplus", [vals[p[0]] for p in pos] + [vals["_extra"]], {p[0]: vals[p[0]] for p in ko}))
    forms.append(("unexpected-kw", [vals[p[0]] for p in pos], dict({p[0]: vals[p[0]] for p in ko}, zzz=1)))
    pk = [p for p in pos if p[1] == "PK"]
    if pk:
        forms.append(("duplicate", [vals[p[0]] for p in pos], dict({p[0]: vals[p[0]] for p in ko}, **{pk[0][0]: 5})))
    if has_vk:
        for k in extra_kw:
            if k not in [p[0] for p in sig if p[1] != "PO"]:
                forms.append((f"extra-{k}", [vals[p[0]] for p in pos], dict({p[0]: vals[p[0]] for p in ko}, **{k: 7})))
    if has_vp:
        forms.append(("varargs", [vals[p[0]] for p in pos] + [vals["_extra"], vals["_extra2"]], {p[0]: vals[p[0]] for p in ko}))
    return forms


def outcome(fn, args, kwargs, is_async=False):
    from jaxtyping import TypeCheckError
    REC["calls"] = 0
    REC["got"] = None
    try:
        r = fn(*args, **kwargs)
        if is_async:
            try:
                r.send(None)
            except StopIteration as si:
                r = si.value
        return ("OK", r, dict(REC["got"] or {}), REC["calls"])
    except TypeCheckError as e:
        return ("TCE", None, None, REC["calls"])
    except (core.PathAbort, core.Unsupported, core.Nondeterminism, core.StopPath):
        raise
    except Exception as e:  # noqa
        return ("EXC", (type(e).__name__, tuple(map(str, e.args))), None, REC["calls"])


def same_received(a, b):
    if a is None or b is None:
        return a is b
    if set(a) != set(b):
        return False
    for k in a:
        x, y = a[k], b[k]
        if isinstance(x, tuple) and isinstance(y, tuple):
            if len(x) != len(y) or any(p is not q for p, q in zip(x, y)):
                return False
        elif isinstance(x, dict) and isinstance(y, dict):
            if set(x) != set(y) or any(x[q] is not y[q] for q in x):
                return False
        elif x is not y:
            return False
    return True


def scenario(inst, V):
    import jaxtyping as jt
    if inst["kind"] == "gensym":
        try:
            from jaxtyping._decorator import _gensym
        except ImportError:
            V.reach("gensym-unavailable")
            return dict(done=False)
        alpha = "Tret012d"
        names = []
        for i in range(inst["nnames"]):
            ln = V.choose(f"n{i}", inst["maxlen"] + 1)
            names.append(V.str(f"s{i}", ln, alpha))
        prefix = ["T", "ret", "default"][V.choose("pre", 3)]
        try:
            out = _gensym(SymSet(names), prefix)
            ok = isinstance(out, str) and out.startswith(prefix) and out[len(prefix):].isdigit()
            fresh = z3.And(*[z3.Not((nm == out).e) if not isinstance(nm == out, bool) else z3.BoolVal(not (nm == out))
                             for nm in names]) if names else True
            V.check("gensym", z3.And(z3.BoolVal(bool(ok)), fresh) if not isinstance(fresh, bool) else (ok and fresh),
                    out=str(out), prefix=prefix)
        except (core.PathAbort, core.Unsupported, core.Nondeterminism, core.StopPath):
            raise
        except Exception as e:  # noqa
            V.check("gensym", False, exc=repr(e))
        return dict(done=True)
    sig = SIGS[inst["sig"]]
    ck = inst["callable"]
    A = jt.Float[V.ARR, "a"]
    # values
    arr_params = [p[0] for p in sig if p[3] == "arr"]
    vals = {}
    sizes = []
    for p in sig:
        if p[3] == "arr":
            s = V.int(f"s_{p[0]}", 0)
            sizes.append(s)
            vals[p[0]] = V.arr([s]) if p[1] != "VK" else 3
        else:
            vals[p[0]] = object()
    vals["_extra"] = V.arr([V.int("s_extra", 0)])
    vals["_extra2"] = V.arr([V.int("s_extra2", 0)])
    rs = V.int("s_ret", 0)
    REC["ret"] = V.arr([rs])
    name = "f"
    g = {"A": A, "_record": _record}
    odd = [AlwaysEq, AmbiguousEq, object]
    for p in sig:
        if p[2]:
            # non-array defaults: objects with unusual == (a wrapper must test "has a default" by identity)
            g[f"D_{p[0]}"] = V.arr([V.int(f"d_{p[0]}", 0)]) if p[3] == "arr" else odd[len([k for k in g if k.startswith("D_")]) % 3]()
    src = make_source(sig, name, inst["ret"], is_async=(ck == "async"), is_lambda=(ck == "lambda"),
                      stringify=(ck == "def-str"))
    exec(src, g)
    plain = g[name]
    tc = fnlib.typechecker(inst["tc"])
    try:
        if ck in ("def", "async", "lambda", "def-str"):
            dec = jt.jaxtyped(typechecker=tc)(plain)
            call_plain, call_dec = plain, dec
        else:
            wrap = {"method": lambda f: f, "classmethod": classmethod, "staticmethod": staticmethod, "property": property}[ck]
            if ck == "property":
                g2 = {"A": A, "_record": _record}
                exec("def f(self) -> A:\n    'doc of f'\n    return _record(locals())\n"
                     "def fs(self, value: A):\n    _record(locals())\n"
                     "def fd(self):\n    _record(dict(deleted=True))\n", g2)
                plain = g2["f"]
                sig = [("self", "PK", 0, None)]
                wrap = lambda f: property(f, g2["fs"], g2["fd"])
            K = type("K", (), {"fp": wrap(plain), "fd": jt.jaxtyped(typechecker=tc)(wrap(plain))})
            k = K()
            V.check("metadata", type(K.__dict__["fd"]) is type(K.__dict__["fp"]), what="descriptor kind",
                    got=type(K.__dict__["fd"]).__name__)
            if ck == "property":
                call_plain, call_dec = (lambda: K.__dict__["fp"].fget(k)), (lambda: K.__dict__["fd"].fget(k))
                dec = K.__dict__["fd"].fget
                # setter and deleter go to the original setter / deleter
                sv = V.arr([V.int("s_set", 0)])
                for which in ("set", "del"):
                    outs = []
                    for attr in ("fp", "fd"):
                        REC["calls"], REC["got"] = 0, None
                        try:
                            if which == "set":
                                setattr(k, attr, sv)
                            else:
                                delattr(k, attr)
                            outs.append(("OK", REC["calls"], sorted((REC["got"] or {}).keys())))
                        except (core.PathAbort, core.Unsupported, core.Nondeterminism, core.StopPath):
                            raise
                        except Exception as e:  # noqa
                            outs.append(("EXC:" + type(e).__name__, REC["calls"], None))
                    V.check("same-outcome", outs[0] == outs[1], what="property " + which, plain=outs[0], decorated=outs[1])
            elif ck == "method":
                call_plain, call_dec = k.fp, k.fd
                dec = K.__dict__["fd"]
            elif ck == "classmethod":
                call_plain, call_dec = K.fp, K.fd
                dec = K.__dict__["fd"].__func__
            else:
                call_plain, call_dec = K.fp, K.fd
                dec = K.__dict__["fd"].__func__
    except (core.PathAbort, core.Unsupported, core.Nondeterminism, core.StopPath):
        raise
    except Exception as e:  # noqa
        V.check("decorates", False, exc=f"{type(e).__name__}: {e}", callable=ck)
        return dict(decorate="EXC:" + type(e).__name__)
    # metadata
    meta_ok = all(getattr(dec, a, None) == getattr(plain, a, None) for a in ("__name__", "__qualname__", "__doc__", "__module__"))
    try:
        s1, s2 = inspect.signature(dec), inspect.signature(plain)
        sig_ok = (list(s1.parameters) == list(s2.parameters) and s1.return_annotation is s2.return_annotation and
                  all(a.kind == b.kind and a.default is b.default and a.annotation is b.annotation
                      for a, b in zip(s1.parameters.values(), s2.parameters.values())))
    except Exception:
        sig_ok = False
    V.check("metadata", meta_ok and sig_ok, name=getattr(dec, "__name__", None), sig_ok=sig_ok)
    # calls
    if ck == "property":
        forms = [("get", [], {})]
    else:
        fsig = sig[1:] if ck in ("method", "classmethod") else sig
        forms = call_forms(fsig, vals, ["ret0", "T0", "default0", "ret1"] + INTERNAL_NAMES + [p[0] for p in fsig if p[1] == "PO"])
    consistent_all = None
    obs = []
    for label, args, kwargs in forms:
        op = outcome(call_plain, args, dict(kwargs), is_async=(ck == "async"))
        od = outcome(call_dec, args, dict(kwargs), is_async=(ck == "async"))
        obs.append((label, op[0], od[0]))
        if op[0] == "EXC":
            # does not bind (or the plain function raises): decorated must raise the same
            V.reach("non-binding")
            # same exception class (the wording of inspect.Signature.bind's TypeError differs from
            # the interpreter's and is not part of the claim); the body must not have run
            V.check("nonbinding-typeerror", od[0] == "EXC" and od[1][0] == op[1][0] and od[3] == 0,
                    form=label, plain=op[1], decorated=(od[0], od[1]))
            continue
        # the call binds: which arrays are checked?  the array-annotated parameters that received
        # an array, the defaults of omitted ones, *args members if annotated, and the result
        checked = []
        got = op[2]
        for p in sig:
            if ck == "lambda":
                break  # a lambda carries no annotations: nothing is checked
            if p[3] == "arr" and p[0] in got:
                v = got[p[0]]
                if p[2] and v is g.get(f"D_{p[0]}"):
                    continue  # default values are not checked (by either typechecker)
                if p[1] == "VP":
                    checked += list(v)
                elif p[1] != "VK":
                    checked.append(v)
        if (inst["ret"] and ck != "lambda") or ck == "property":
            checked.append(REC["ret"])
        szs = []
        bad_type = False
        for v in checked:
            if hasattr(v, "shape"):
                szs.append(v.shape[0])
            else:
                bad_type = True
        if bad_type:
            cons = z3.BoolVal(False)
        elif len(szs) <= 1:
            cons = z3.BoolVal(True)
        else:
            cons = z3.And(*[core.lift(szs[0]) == core.lift(x) for x in szs[1:]])
        well = V.decide(cons)
        if well:
            V.reach("well-typed")
            V.check("same-outcome", od[0] == "OK" and od[1] is op[1] and same_received(od[2], op[2]),
                    form=label, decorated=od[0])
            V.check("body-count", od[3] == 1, form=label, calls=od[3])
        else:
            V.reach("ill-typed")
            V.check("illtyped-rejected", od[0] == "TCE", form=label, decorated=od[0])
            # body not run at all when the *parameters* already violate; if only the result
            # violates, it has run exactly once
            pszs = szs[:-1] if ((inst["ret"] and ck != "lambda") or ck == "property") else szs
            pcons = z3.BoolVal(True) if len(pszs) <= 1 else z3.And(*[core.lift(pszs[0]) == core.lift(x) for x in pszs[1:]])
            if not bad_type and V.decide(pcons):
                V.check("body-count", od[3] == 1, form=label, calls=od[3], stage="return")
            else:
                V.check("illtyped-not-run", od[3] == 0, form=label, calls=od[3])
    return dict(forms=obs)


def _key(inst, label, vals, info):
    if inst.get("callable") == "lambda":
        return "lambda-cannot-be-decorated"
    if inst.get("callable") == "async" and inst.get("ret"):
        return "async-def-return-annotation-checks-coroutine-object"
    return f"{label}|{sorted((k, repr(v)) for k, v in inst.items())!r}|{info.get('form')}"


harness, concrete_run, replay, finding_key = base.make_api(scenario, _key)
