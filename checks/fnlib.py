"""Builds real jaxtyped-decorated functions / dataclasses from a signature description."""
import dataclasses

from checks import base

_cache = {}

HOLD = {"calls": 0, "inside": None, "ret": None, "body_exc": None, "probe": None, "probe_result": None}


def typechecker(name):
    if name == "typeguard":
        import typeguard
        return typeguard.typechecked
    if name == "beartype":
        import beartype
        return beartype.beartype
    if name is None:
        return None
    raise KeyError(name)


def _body():
    HOLD["calls"] += 1
    HOLD["inside"] = base.bindings()
    if HOLD["probe"] is not None:
        HOLD["probe_result"] = HOLD["probe"]()
    if HOLD["body_exc"] is not None:
        raise HOLD["body_exc"]
    return HOLD["ret"]


def build(params, ret, ARR, tc, style="function", order=None, category="Float", names=None,
          anns=None, defaults=None, stringify=False):
    """params: list of dim strings (or None for un-annotated); ret: dim string or None.
    order: declaration order (list of indices).  Returns (callable, pnames).
    `anns` (optional): explicit annotation objects per parameter instead of dim strings."""
    key = (tuple(params), ret, ARR, tc, style, tuple(order or ()), category, tuple(names or ()),
           tuple(id(a) for a in (anns or ())), tuple(sorted((k, id(v)) for k, v in (defaults or {}).items())), stringify)
    if key in _cache:
        return _cache[key]
    import jaxtyping as jt
    cat = getattr(jt, category)
    order = list(order) if order is not None else list(range(len(params)))
    pnames = list(names) if names else [f"p{i}" for i in range(len(params))]
    g = {"_body": _body, "jt": jt, "dataclasses": dataclasses}
    for i, d in enumerate(params):
        if anns is not None and anns[i] is not None:
            g[f"A{i}"] = anns[i]
        elif d is not None:
            g[f"A{i}"] = cat[ARR, d]
    if ret is not None:
        g["R"] = ret if not isinstance(ret, str) else cat[ARR, ret]

    def ann(i):
        # stringify: annotations are written as strings (as with `from __future__ import annotations`)
        a = (f": 'A{i}'" if stringify else f": A{i}") if f"A{i}" in g else ""
        if defaults and i in defaults:
            g[f"DFLT{i}"] = defaults[i]
            a += f" = DFLT{i}"
        return a

    if style == "function":
        args = ", ".join(f"{pnames[i]}{ann(i)}" for i in order)
        rann = (" -> 'R'" if stringify else " -> R") if ret is not None else ""
        src = f"def f({args}){rann}:\n    return _body()\n"
        exec(src, g)
        fn = g["f"]
        fn.__module__ = "verif_generated"
        out = jt.jaxtyped(typechecker=typechecker(tc))(fn)
    elif style == "varargs":
        # the last parameter is declared as an annotated *args parameter
        parts = [f"{pnames[i]}{ann(i)}" for i in order[:-1]] + [f"*{pnames[order[-1]]}{ann(order[-1])}"]
        src = f"def f({', '.join(parts)}){' -> R' if ret is not None else ''}:\n    return _body()\n"
        exec(src, g)
        fn = g["f"]
        fn.__module__ = "verif_generated"
        out = jt.jaxtyped(typechecker=typechecker(tc))(fn)
    elif style == "varargs-kw":
        # ..., *p[n-2] (annotated, receives one array), p[n-1] keyword-only
        parts = [f"{pnames[i]}{ann(i)}" for i in order[:-2]] + [f"*{pnames[order[-2]]}{ann(order[-2])}",
                                                               f"{pnames[order[-1]]}{ann(order[-1])}"]
        src = f"def f({', '.join(parts)}){' -> R' if ret is not None else ''}:\n    return _body()\n"
        exec(src, g)
        fn = g["f"]
        fn.__module__ = "verif_generated"
        out = jt.jaxtyped(typechecker=typechecker(tc))(fn)
    elif style == "kwonly":
        # every parameter keyword-only (defaults, where given, precede required ones freely)
        args = ", ".join(f"{pnames[i]}{ann(i)}" for i in order)
        src = f"def f(*, {args}){' -> R' if ret is not None else ''}:\n    return _body()\n"
        exec(src, g)
        fn = g["f"]
        fn.__module__ = "verif_generated"
        out = jt.jaxtyped(typechecker=typechecker(tc))(fn)
    elif style == "dataclass-derived":
        # the first field lives in a jaxtyped base dataclass, the others in a jaxtyped subclass
        f0 = f"    {pnames[order[0]]}{ann(order[0]) or ': object'}"
        rest = "\n".join(f"    {pnames[i]}{ann(i) or ': object'}" for i in order[1:]) or "    pass"
        src = f"@dataclasses.dataclass\nclass Base:\n{f0}\n"
        exec(src, g)
        g["Base"].__module__ = "verif_generated"
        g["Base"] = jt.jaxtyped(typechecker=typechecker(tc))(g["Base"])
        src = f"@dataclasses.dataclass\nclass f(Base):\n{rest}\n"
        exec(src, g)
        cls = g["f"]
        cls.__module__ = "verif_generated"
        out = jt.jaxtyped(typechecker=typechecker(tc))(cls)
    elif style == "dataclass":
        fields = "\n".join(f"    {pnames[i]}{ann(i) or ': object'}" for i in order)
        src = f"@dataclasses.dataclass\nclass f:\n{fields}\n"
        exec(src, g)
        cls = g["f"]
        cls.__module__ = "verif_generated"
        out = jt.jaxtyped(typechecker=typechecker(tc))(cls)
    elif style == "oldstyle":
        import warnings
        args = ", ".join(f"{pnames[i]}{ann(i)}" for i in order)
        src = f"def f({args}){' -> R' if ret is not None else ''}:\n    return _body()\n"
        exec(src, g)
        fn = g["f"]
        with warnings.catch_warnings():
            warnings.simplefilter("ignore")
            out = jt.jaxtyped(typechecker(tc)(fn))
    else:
        raise KeyError(style)
    _cache[key] = (out, pnames)
    return out, pnames


def call(fn, pnames, values, how="pos"):
    """Call and classify: ('OK', result) | ('TCE', exc) | ('ERR', exc) | ('EXC', exc)."""
    from jaxtyping import AnnotationError, TypeCheckError
    from symx import core
    try:
        if how == "pos":
            r = fn(*values)
        elif how == "pos+kwlast":
            r = fn(*values[:-1], **{pnames[-1]: values[-1]})
        else:
            r = fn(**dict(zip(pnames, values)))
        return "OK", r
    except TypeCheckError as e:
        return "TCE", e
    except AnnotationError as e:
        return "ERR", e
    except (core.PathAbort, core.Unsupported, core.Nondeterminism, core.StopPath):
        raise
    except Exception as e:  # noqa
        return "EXC:" + type(e).__name__, e
