"""C18 -- cached bytecode never makes a module run with the wrong instrumentation.

What is decided here, and how (stated plainly): the property quantifies over *histories of
runs* sharing one bytecode cache directory.  The deciding machinery is CPython's importlib
(file handling, mtime/size validation) and it is executed for real: every run of a history
imports real modules from a generated forest with bytecode writing enabled over a real cache
directory; a "run" is simulated in-process by giving the interpreter a fresh module table,
no hooks, and the pristine importlib.cache_from_source (what a new process starts with).
The history -- per run: which modules are hooked, which typechecker (or none / no hook), the
import order (including an import nested inside a hooked module and one that fails), an
optional source edit -- is a solver-branched selector sequence: exhaustive enumeration of a
stated finite family, with *no value variables*.  Oracle: after every import, the module must
carry exactly the instrumentation its current configuration calls for and the constants of
its current source.  Violations are replayed with real separate interpreter processes.
Additionally (O1) the cache tags of all checker configurations are pairwise distinct and
differ from CPython's own ('', opt-1, opt-2).
"""
import importlib
import importlib._bootstrap_external as _be
import os
import random
import shutil
import subprocess
import sys
import tempfile
import textwrap

from checks import base
from checks.c11 import classify
from symx import core

PROPERTY = "C18"
TITLE = "Cached bytecode never makes a module run with the wrong instrumentation"

MODS = ["wh", "wp", "wq", "wbad", "wsyn"]
CHECKERS = ["typeguard.typechecked", "beartype.beartype", None, "nohook"]
HOOKSETS = [[], ["wh"], ["wp"], ["wh", "wp"], ["wq"], ["wh", "wq", "wbad"], ["wbad", "wsyn"], ["wh", "wp", "wq", "wbad", "wsyn"]]
ORDERS = [["wh"], ["wp", "wh"], ["wq", "wh"], ["wbad", "wp"], ["wbad", "wq", "wh"], ["wp"], ["wh", "wq"], ["wsyn", "wq", "wp"]]
_PRISTINE = _be.cache_from_source
_ROOT = [None]

SRC = {
    "wh": "import wp\nVERSION = {v}\ndef f(x: int):\n    return x\n{pad}",
    "wp": "VERSION = {v}\ndef f(x: int):\n    return x\n{pad}",
    "wq": "VERSION = {v}\ndef f(x: int):\n    return x\n{pad}",
    # raises while executing (after importing wq): an 'optional dependency' style failure
    # does not compile: the failure happens while the loader obtains the module's code
    "wsyn": "VERSION = {v}\ndef f(:\n    pass\n{pad}",
    "wbad": "import wq\nVERSION = {v}\ndef f(x: int):\n    return x\nraise ImportError('optional dependency missing')\n{pad}",
}


_OLD = 1_000_000_000   # 2001: sources carry restored, old timestamps (as after unpacking an archive)


def write_mod(root, name, version, pads=None):
    """Write revision `version` (a single digit) with `pads` padding lines (default: `version`,
    so that a plain edit changes the size) and a timestamp that identifies the revision."""
    path = os.path.join(root, name + ".py")
    open(path, "w").write(SRC[name].format(v=version, pad="# pad\n" * (version if pads is None else pads)))
    os.utime(path, (_OLD + 100 * version, _OLD + 100 * version))


def apply_edit(root, e, versions, pads):
    """e in 1..3: new revision of module e with a different size; 4..6: new revision of module
    e-3 with the *same* size (only the restored timestamp tells the revisions apart)."""
    m = MODS[(e - 1) % 3]
    versions[m] += 1
    if e <= 3:
        pads[m] += 1
    write_mod(root, m, versions[m], pads[m])
    return m, "size changes" if e <= 3 else "same size, older-than-install timestamp"


def fresh_forest():
    root = tempfile.mkdtemp(prefix="verif_c18_")
    for m in MODS:
        write_mod(root, m, 1)
    os.makedirs(os.path.join(root, "cache"))
    return root


def setup_worker():
    pass


def instances(tier, seed):
    rng = random.Random(seed)
    out = []
    out.append(("core", dict(kind="tags")))
    nruns = 2
    combos = [(h, c) for h in range(len(HOOKSETS)) for c in range(len(CHECKERS))]
    # run 1 configuration is fixed per instance; run 2 (and 3) are solver-branched
    for h, c in combos:
        if CHECKERS[c] == "nohook" and h:
            continue
        for o in range(len(ORDERS)):
            # every instance is ~4200 two-run histories of real imports: a seeded part must be
            # exhausted (core), the rest is explored as far as the soft budget allows (ext)
            g = "core" if rng.random() < (0.3 if tier == "thorough" else 0.05) else "ext"
            out.append((g, dict(kind="history", run1=[h, c, o], nruns=2, env1=rng.choice([0, 0, 1, 2]))))
            if tier == "thorough" and rng.random() < 0.15:
                # three runs: explored as far as the budget allows (about a million histories each)
                out.append(("ext", dict(kind="history", run1=[h, c, o], nruns=3, env1=0)))
    out.sort(key=lambda x: x[0] != "core")
    return out


BOUNDS = dict(run_environment="every run is additionally normal / with bytecode writing off (python -B) / with JAXTYPING_DISABLE=1 (solver-branched)", history="2 runs over one cache directory (thorough: 3 runs for a seeded subset, within the time budget); a seeded 5 % (thorough 30 %) of the run-1 configurations must be exhausted, the others are explored within the soft budget (instances_skipped_soft_budget); run 1 fixed per instance (8 hook sets x {typeguard, beartype, None, no hook} x 7 import orders); every later run: solver-branched choice of hook set, checker, import order and an optional source edit of one module (size-changing, or same size with a different restored timestamp)",
              forest="wh (imports wp while being executed), wp, wq, wbad (imports wq, then raises ImportError), wsyn (does not compile)",
              tags="the three checker strings + None: pairwise distinct cache tags, distinct from CPython's")
STUBS = ["a 'run' is simulated in-process: module table purged, hooks removed, importlib._bootstrap_external.cache_from_source reset to the pristine function (the state of a fresh interpreter); replays use real subprocesses"]
ASSUMPTIONS = ["no value variables: histories are an enumerated finite family (the deciding code is importlib's file handling, executed for real)",
               "a source edit either changes the file size or keeps it and carries a different (restored, old) timestamp; edits that keep both size and timestamp are outside the claim",
               "md5 collision-freeness for distinct checker strings", "crashes in the middle of writing a cache file are outside the claim"]
REQUIRED_LABELS = {"tags-distinct", "right-code"}
REQUIRED_WITNESS = {"cache-hit", "edited", "edited-same-size", "edited-size", "nested-import", "failed-import", "prefix-collision-5", "prefix-collision-8"}
BUDGET_S = {"quick": 80, "thorough": 1200}


def begin_run(root):
    from jaxtyping._import_hook import _JaxtypingFinder
    for m in list(sys.modules):
        if m in MODS:
            del sys.modules[m]
    sys.meta_path[:] = [f for f in sys.meta_path if not isinstance(f, _JaxtypingFinder)]
    _be.cache_from_source = _PRISTINE
    importlib.invalidate_caches()


def expected(name, hooks, checker, disabled=False):
    if checker == "nohook":
        return "plain"
    for h in hooks:
        if name == h or name.startswith(h + "."):
            # with checking disabled the module is still instrumented, the decorators just do nothing
            return "none" if (checker is None or disabled) else checker.split(".")[0]
    return "plain"


def do_run(V, root, versions, hooks, checker, order, tag, trace, nowrite=False, disabled=False):
    """One run.  nowrite: the run has bytecode writing switched off (python -B /
    PYTHONDONTWRITEBYTECODE); disabled: the run has JAXTYPING_DISABLE=1."""
    import jaxtyping as jt
    begin_run(root)
    sys.dont_write_bytecode = bool(nowrite)
    jt.config.update("jaxtyping_disable", bool(disabled))
    mgr = None
    if checker != "nohook":
        mgr = jt.install_import_hook(list(hooks), checker)
    try:
        for name in order:
            before = set(sys.modules)
            try:
                importlib.import_module(name)
                failed = False
            except (ImportError, SyntaxError):
                failed = True
                V.reach("failed-import")
            newly = sorted(m for m in set(sys.modules) - before if m in MODS)
            if len(newly) > 1 or (failed and newly):
                V.reach("nested-import")
            for nm in newly:
                mod = sys.modules[nm]
                got = classify(mod)
                want = expected(nm, hooks, checker, disabled)
                ver = getattr(mod, "VERSION", None)
                V.check("right-code", got == want and ver == versions[nm], module=nm, got=got, expected=want,
                        version=ver, current_version=versions[nm], trace=trace + [f"{tag}: import {name}"])
            trace.append(f"{tag}: hooks={hooks} checker={checker} nowrite={nowrite} disabled={disabled} import {name}" + (" (raised ImportError)" if failed else ""))
    finally:
        if mgr is not None:
            mgr.uninstall()
        sys.dont_write_bytecode = False
        jt.config.update("jaxtyping_disable", False)


def scenario(inst, V):
    if inst["kind"] == "tags":
        return scenario_tags(inst, V)
    root = fresh_forest()
    sys.path.insert(0, root)
    old_prefix, old_dwb = sys.pycache_prefix, sys.dont_write_bytecode
    sys.pycache_prefix = os.path.join(root, "cache")
    sys.dont_write_bytecode = False
    trace = []
    versions = {m: 1 for m in MODS}
    pads = {m: 1 for m in MODS}
    try:
        h, c, o = inst["run1"]
        env1 = inst.get("env1", 0)   # 0 normal, 1 bytecode writing off, 2 JAXTYPING_DISABLE=1
        do_run(V, root, versions, HOOKSETS[h], CHECKERS[c], ORDERS[o], "run1", trace, nowrite=env1 == 1, disabled=env1 == 2)
        for r in range(2, inst["nruns"] + 1):
            e = V.choose(f"edit{r}", 7)  # 0 = no edit; 1..3 edit wh / wp / wq (size changes); 4..6 same-size edit
            if e:
                m, how = apply_edit(root, e, versions, pads)
                V.reach("edited")
                V.reach("edited-same-size" if e > 3 else "edited-size")
                trace.append(f"edit {m} -> VERSION {versions[m]} ({how})")
            h = V.choose(f"h{r}", len(HOOKSETS))
            c = V.choose(f"c{r}", len(CHECKERS))
            if CHECKERS[c] == "nohook" and h:
                raise core.PathAbort("redundant")
            o = V.choose(f"o{r}", len(ORDERS))
            V.reach("cache-hit")
            env = V.choose(f"env{r}", 3)
            do_run(V, root, versions, HOOKSETS[h], CHECKERS[c], ORDERS[o], f"run{r}", trace, nowrite=env == 1, disabled=env == 2)
    finally:
        begin_run(root)
        sys.pycache_prefix, sys.dont_write_bytecode = old_prefix, old_dwb
        if root in sys.path:
            sys.path.remove(root)
        shutil.rmtree(root, ignore_errors=True)
    return dict(trace=trace)


def scenario_tags(inst, V):
    """O1: the cache file a hooked module is written to differs for every typechecker
    configuration and from the file of the un-hooked module -- observed on the real cache
    directory (file names), for the usual checkers, None, a look-alike string, and pairs of
    strings whose md5 digests share their first 5 / 8 hex characters (birthday search)."""
    import hashlib
    import jaxtyping as jt
    checkers = ["typeguard.typechecked", "beartype.beartype", None, "mytc.typechecked"]
    for k, n in ((5, 6000), (8, 400000)):
        seen = {}
        for i in range(n):
            name = f"mytc.checker_{i}"
            pre = hashlib.md5(name.encode()).hexdigest()[:k]
            if pre in seen:
                checkers += [seen[pre], name]
                V.reach(f"prefix-collision-{k}")
                break
            seen[pre] = name
    root = fresh_forest()
    open(os.path.join(root, "mytc.py"), "w").write("def __getattr__(name):\n    return lambda f, *a, **k: f\n")
    sys.path.insert(0, root)
    old_prefix, old_dwb = sys.pycache_prefix, sys.dont_write_bytecode
    cache = os.path.join(root, "cache")
    sys.pycache_prefix = cache
    sys.dont_write_bytecode = False

    def files():
        out = set()
        for dp, _, fs in os.walk(cache):
            out |= {f for f in fs if f.startswith("wq.")}
        return out
    tags = {}
    try:
        for ck in ["nohook"] + checkers:
            begin_run(root)
            before = files()
            mgr = jt.install_import_hook(["wq"], ck) if ck != "nohook" else None
            try:
                importlib.import_module("wq")
            finally:
                if mgr is not None:
                    mgr.uninstall()
            new = files() - before
            tags[repr(ck)] = sorted(new)
    finally:
        begin_run(root)
        sys.modules.pop("mytc", None)
        sys.pycache_prefix, sys.dont_write_bytecode = old_prefix, old_dwb
        if root in sys.path:
            sys.path.remove(root)
        shutil.rmtree(root, ignore_errors=True)
    # every configuration wrote exactly one new file (=> its name differs from all earlier ones)
    ok = all(len(v) == 1 for v in tags.values())
    V.check("tags-distinct", ok, tags=tags)
    return dict(tags={k: v for k, v in tags.items()})


# ---- replay with real interpreter processes ---------------------------------------------
RUNNER = textwrap.dedent('''
    import sys, json, importlib
    sys.path.insert(0, {repo!r}); sys.path.insert(0, {verif!r}); sys.path.insert(0, {root!r})
    sys.pycache_prefix = {root!r} + "/cache"
    import jaxtyping as jt
    from checks.c11 import classify
    hooks, checker, order, env = json.loads({cfg!r})
    sys.dont_write_bytecode = (env == 1)
    jt.config.update("jaxtyping_disable", env == 2)
    if checker != "nohook":
        jt.install_import_hook(hooks, checker)
    res = []
    for name in order:
        before = set(sys.modules)
        try:
            importlib.import_module(name)
        except (ImportError, SyntaxError):
            pass
        for nm in sorted(set(sys.modules) - before):
            if nm in {mods!r}:
                res.append([nm, classify(sys.modules[nm]), getattr(sys.modules[nm], "VERSION", None)])
    print("RESULT" + json.dumps(res))
''')


def replay(inst, label, vals, info):
    """Re-run the history with one real interpreter process per run."""
    import json
    if inst["kind"] == "tags":
        return _inproc_replay(inst, label, vals, info)
    root = fresh_forest()
    versions = {m: 1 for m in MODS}
    pads = {m: 1 for m in MODS}
    runs = [("run1", None) + tuple(inst["run1"]) + (inst.get("env1", 0),)]
    for r in range(2, inst["nruns"] + 1):
        if f"h{r}" in vals or f"o{r}" in vals or f"c{r}" in vals or f"edit{r}" in vals:
            runs.append((f"run{r}", vals.get(f"edit{r}", 0), vals.get(f"h{r}", 0), vals.get(f"c{r}", 0), vals.get(f"o{r}", 0),
                         vals.get(f"env{r}", 0)))
    text = []
    bad = False
    try:
        for tag, e, h, c, o, envk in runs:
            if e:
                m, how = apply_edit(root, e, versions, pads)
                text.append(f"edit {m} -> VERSION {versions[m]} ({how})")
            cfg = json.dumps([HOOKSETS[h], CHECKERS[c], ORDERS[o], envk])
            env = dict(os.environ)
            env.pop("PYTHONDONTWRITEBYTECODE", None)
            env.pop("JAXTYPING_DISABLE", None)
            from checks import common
            p = subprocess.run([sys.executable, "-c", RUNNER.format(repo=common.REPO, verif=common.VERIF, root=root, cfg=cfg, mods=MODS)],
                               capture_output=True, text=True, env=env, timeout=300)
            line = [l for l in p.stdout.splitlines() if l.startswith("RESULT")]
            res = json.loads(line[-1][6:]) if line else [["<crash>", p.stderr[-300:], None]]
            for nm, got, ver in res:
                want = expected(nm, HOOKSETS[h], CHECKERS[c], envk == 2)
                ok = got == want and ver == versions.get(nm)
                text.append(f"{tag} (separate process, env={['normal', 'no bytecode writing', 'JAXTYPING_DISABLE=1'][envk]}) hooks={HOOKSETS[h]} checker={CHECKERS[c]} order={ORDERS[o]}: "
                            f"{nm}: instrumentation={got} (expected {want}) VERSION={ver} (current {versions.get(nm)})" + ("" if ok else "   <-- WRONG"))
                bad = bad or not ok
    finally:
        shutil.rmtree(root, ignore_errors=True)
    return bad, "\n".join(text)


def _key(inst, label, vals, info):
    return f"{label}|{inst!r}|{info.get('module')}|{sorted(vals.items())!r}"


harness, concrete_run, _inproc_replay, finding_key = base.make_api(scenario, _key)
