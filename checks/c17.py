"""C17 -- verdicts depend on type, shape and dtype only, so tracing equals eager.

Solver-decided part (value independence): the real decorated-call path and the real array /
PyTree instance checks run on `MonArr` arguments -- a monitored duck array that exposes
.shape (solver variables) and .dtype and *records every other* attribute access, conversion
or operator (__bool__, __eq__, __ne__, __array__, __iter__, __getitem__, __len__, __index__,
__float__, arithmetic, formatting ...).  Obligation on every feasible path: the access log is
empty, i.e. a verdict is never computed from (and never forces) an element value -- which is
exactly what a JAX tracer cannot provide.  The verdict itself must also be the one the
reference semantics gives (so "accept/reject exactly as eager" reduces to shapes/dtypes).
Bridging (concrete witnesses, not the deciding step): on a deterministic sample of paths the
model's shapes are instantiated with real jax arrays and the decorated function is called
eagerly and under jit / vmap / grad / eval_shape / jit(vmap) / vmap(jit): same verdict class,
no concretisation error.
"""
import itertools
import random

import z3

from checks import base, c01, fnlib
from env.fakes import MonArr
from spec import dims as D, exists as X
from symx import core

PROPERTY = "C17"
TITLE = "Verdicts depend on type, shape and dtype only, so tracing equals eager"

# (parameter name, dims) lists + return dims.  Names deliberately collide with axis names.
SIGS = [
    ([("x", "a b"), ("y", "b c")], "a c"),
    ([("x", "*v a"), ("y", "#a")], "*v"),
    ([("n", ""), ("x", "n+1")], None),          # 'n' is a parameter, not a bound axis -> AnnotationError
    ([("a", "a"), ("b", "a+1")], "a"),          # axis a is bound by parameter a's shape, not its value
    ([("x", "a"), ("a", "")], "a-1"),
    ([("x", "... a"), ("y", "_ a")], "2*a"),
    ([("x", "*#v"), ("y", "*#v")], "*v"),
    ([("x", "a b"), ("b", "b")], "x"),          # return axis named like a parameter, never bound
    ([("x", "#a #b"), ("y", "a b")], None),
    ([("x", "a 3")], "a"),
    # parameters with (scalar) defaults that receive arrays: nothing may compare them with the default
    ([("x", "a"), ("eps", "", 1.0), ("y", "a", None)], "a"),
    ([("x", "a b"), ("eps", "", 1.0), ("tol", "", 0.5)], "b a"),
    # f-string axes reading shape-only attributes of an *array* argument (a tracer answers these too)
    ([("x", "a b"), ("y", "{len(x.shape)} b")], None),
    ([("x", "a b"), ("y", "a")], "{x.shape[0]}+1"),
    ([("x", "*v a"), ("y", "{x.ndim}")], "{x.shape[-1]}"),
]
TREE = [("arr", "a b"), ("arr", "*v a"), ("union", [("arr", "a 3"), ("arr", "a b")])]


def instances(tier, seed):
    out = []
    for si in range(len(SIGS)):
        for tc in ("typeguard", "beartype"):
            out.append(("core", dict(kind="call", sig=si, tc=tc, maxrank=2 if tier == "quick" else 3)))
    dimlist = ["a b", "*v a", "#a *#v", "a a+1", "... 3", "x+1", "_ a"]
    if tier == "thorough":
        dimlist += ["a #b 3", "*#v a b", "a-1 a", "2*a *v a", "#a #a", "a ... b", "*v", "", "1 a 1", "a*2 a b"]
    for dims in dimlist:
        for prior in ([], ["a"], ["*v"]) + (() if tier == "quick" else (["a b"], ["*#v"], ["#a"])):
            out.append(("core", dict(kind="check", dims=dims, prior=list(prior), maxrank=3 if tier == "quick" else 4)))
    for ti in range(len(TREE)):
        for sk in ("t2", "nest", "dict") + (() if tier == "quick" else ("none", "node", "nt", "deep", "empty")):
            out.append(("core", dict(kind="tree", spec=ti, skel=sk)))
    return out


BOUNDS = dict(calls="%d signatures (1-3 array parameters + return; parameter names colliding with axis names; f-string axes over len(x.shape) / x.ndim / x.shape[0] / x.shape[-1] of an array argument) x {typeguard, beartype}; rank 0..2, sizes unbounded" % len(SIGS),
              checks="7 dim strings x 3 prior states, rank 0..3", trees="3 leaf types x 3 skeletons of MonArr leaves",
              bridging="every 6th completed path of a 'call' instance: jit, vmap, grad, eval_shape, jit(vmap), vmap(jit) on real jax arrays of the path model's shapes (sizes capped at 6)")
STUBS = c01.STUBS + ["MonArr: monitored duck array standing in for a tracer (no concrete value available)"]
ASSUMPTIONS = ["a tracer differs from MonArr only in being a jax.Array instance and in carrying concrete shapes; the bridging runs cover that difference on sampled paths only",
               "transformations beyond the listed six are outside the claim"]
REQUIRED_LABELS = {"no-value-access", "verdict", "tracing-equals-eager"}
REQUIRED_WITNESS = {"OK", "TCE", "ERR", "bridged"}
BUDGET_S = {"quick": 200, "thorough": 1200}
from checks import c08 as _c08
setup_worker = _c08.setup_worker
preflight = c01.preflight
_counter = [0]
_fn_cache = {}


def get_fn(sig, ret, ARR, tc, body):
    key = (repr(sig), ret, ARR, tc, body)
    if key in _fn_cache:
        return _fn_cache[key]
    import jaxtyping as jt
    g = {"_body": body, "jt": jt}
    args = []
    for i, p in enumerate(sig):
        pn, d = p[0], p[1]
        g[f"A{i}"] = jt.Float[ARR, d]
        if len(p) > 2:
            g[f"D{i}"] = p[2]
            args.append(f"{pn}: A{i} = D{i}")
        else:
            args.append(f"{pn}: A{i}")
    if ret is not None:
        g["R"] = jt.Float[ARR, ret]
    src = f"def f({', '.join(args)}){' -> R' if ret is not None else ''}:\n    return _body({', '.join(p[0] for p in sig)})\n"
    exec(src, g)
    fn = g["f"]
    fn.__module__ = "verif_generated"
    out = jt.jaxtyped(typechecker=fnlib.typechecker(tc))(fn)
    _fn_cache[key] = out
    return out


_RET = [None]


def _mon_body(*args):
    return _RET[0]


def expected_call(V, sig, ret, shapes, rshape):
    """reference verdict of a decorated call (sequential semantics; parameter values are never axes)"""
    B = D.Bindings()
    # {expr} over array arguments: rewritten to plain {name} arguments of the reference
    args = {}

    def rw(d):
        for p, sh in zip(sig, shapes):
            pn = p[0]
            for pat, key, val in ((f"{{len({pn}.shape)}}", f"{pn}_rank", len(sh)), (f"{{{pn}.ndim}}", f"{pn}_rank", len(sh)),
                                  (f"{{{pn}.shape[0]}}", f"{pn}_first", core.lift(sh[0]) if sh else None),
                                  (f"{{{pn}.shape[-1]}}", f"{pn}_last", core.lift(sh[-1]) if sh else None)):
                if pat in d:
                    d = d.replace(pat, "{" + key + "}")
                    args[key] = val
        return d
    seq = [(D.parse_ref(rw(p[1])), sh) for p, sh in zip(sig, shapes)]
    if ret is not None:
        seq.append((D.parse_ref(rw(ret)), rshape))
    for dm, sh in seq:
        st = D.step(dm, [core.lift(s) for s in sh], B, args)
        if V.decide(st["strict"] == D.ACC):
            B = st["B"]
            continue
        return st
    return None


def scenario(inst, V):
    import jaxtyping as jt
    from jaxtyping import jaxtyped, PyTree
    MonArr.log = []
    kind = inst["kind"]
    if kind == "call":
        sig, ret = SIGS[inst["sig"]]
        mr = inst["maxrank"]
        shapes = []
        for i in range(len(sig)):
            r = V.choose(f"r{i}", mr + 1)
            shapes.append([V.int(f"s{i}_{j}", 0) for j in range(r)])
        rshape = None
        if ret is not None:
            r = V.choose("rr", mr + 1)
            rshape = [V.int(f"sr_{j}", 0) for j in range(r)]
        fn = get_fn(sig, ret, MonArr, inst["tc"], _mon_body)
        _RET[0] = MonArr(rshape) if rshape is not None else None
        kindr, res = fnlib.call(fn, [p[0] for p in sig], [MonArr(s) for s in shapes], "pos")
        V.reach(kindr)
        V.check("no-value-access", not MonArr.log, log=list(MonArr.log), verdict=kindr)
        first = expected_call(V, sig, ret, shapes, rshape)
        if first is None:
            V.check("verdict", kindr == "OK", got=kindr, expected="OK")
        else:
            got = {"TCE": D.REJ, "ERR": D.ERR}.get(kindr)
            V.check("verdict", D.verdict_allowed(first, got) if got is not None else False, got=kindr)
        # ---- bridging on a deterministic sample of paths
        _counter[0] += 1
        if _counter[0] % 6 == 0 or V.concrete:
            bridge(inst, V, sig, ret, shapes, rshape, kindr)
        return dict(verdict=kindr)
    if kind == "check":
        with jaxtyped("context"):
            B = D.Bindings()
            for k, pd in enumerate(inst["prior"]):
                pr = V.choose(f"pr{k}", 3)
                ps = [V.int(f"p{k}_{i}", 0) for i in range(pr)]
                if c01.observe_check(MonArr(ps), jt.Float[MonArr, pd]) != D.ACC:
                    raise core.PathAbort("prior")
                B = D.step(D.parse_ref(pd), [core.lift(s) for s in ps], B)["B"]
            rank = V.choose("rank", inst["maxrank"] + 1)
            shape = [V.int(f"s{i}", 0) for i in range(rank)]
            got = c01.observe_check(MonArr(shape), jt.Float[MonArr, inst["dims"]])
            st = D.step(D.parse_ref(inst["dims"]), [core.lift(s) for s in shape], B)
        V.check("no-value-access", not MonArr.log, log=list(MonArr.log))
        V.check("verdict", D.verdict_allowed(st, got) if got in (0, 1, 2) else False, got=str(got))
        return dict(verdict=str(got))
    if kind == "tree":
        from checks import c08
        from spec import trees as T
        T.register_node()
        spec = c08._tuplify(TREE[inst["spec"]])
        n, mk = c08.SKEL[inst["skel"]]
        leaves = []
        for i in range(n):
            r = V.choose(f"r{i}", 3)
            leaves.append(MonArr([V.int(f"l{i}_{j}", 0) for j in range(r)]))
        tree = mk(leaves)
        with jaxtyped("context"):
            got = c08.observe(tree, PyTree[T.to_ann(spec, MonArr), "T"])
            exp, _ = T.tree_check(V, spec, tree, "T", D.Bindings(), MonArr)
        V.check("no-value-access", not MonArr.log, log=list(MonArr.log))
        V.check("verdict", got == exp, got=got, expected=exp)
        return dict(verdict=got)
    raise AssertionError(kind)


def bridge(inst, V, sig, ret, shapes, rshape, kindr):
    """Concrete witnesses with real jax arrays of this path's model (sizes capped)."""
    import jax
    import jax.numpy as jnp
    import jaxtyping as jt
    # pin the path to one concrete point so that the reported model is the one tested
    if not V.concrete:
        m = V.ctx.sp.get_model()
        conc = lambda s: m.eval(core.lift(s), model_completion=True).as_long()
    else:
        conc = lambda s: int(s)
    cs = [[conc(s) for s in sh] for sh in shapes]
    cr = [conc(s) for s in rshape] if rshape is not None else None
    if any(x > 6 for sh in cs + ([cr] if cr else []) for x in sh):
        return
    if not V.concrete:
        for sh, csh in zip(shapes + ([rshape] if rshape is not None else []), cs + ([cr] if cr is not None else [])):
            for s, c in zip(sh, csh):
                V.assume(core.lift(s) == c)

    def body(*args):
        out = jnp.zeros(tuple(cr)) if cr is not None else None
        if out is not None and args:
            out = out + 0.0 * sum(a.sum() for a in args)
        return out
    fn = get_fn(sig, ret, jax.Array, inst["tc"], body)
    _fn_cache.pop((repr(sig), ret, jax.Array, inst["tc"], body), None)
    arrays = [jnp.ones(tuple(s), dtype="float32") for s in cs]

    def classify(call):
        from jaxtyping import AnnotationError, TypeCheckError
        try:
            call()
            return "OK"
        except TypeCheckError as e:
            c = e
            while c is not None:
                if "Tracer" in type(c).__name__ or "Concretization" in type(c).__name__:
                    return "TRACER-ERROR:" + type(c).__name__
                c = c.__cause__ or c.__context__
            return "TCE"
        except AnnotationError:
            return "ERR"
        except Exception as e:  # noqa
            return "EXC:" + type(e).__name__
    results = {"eager": classify(lambda: fn(*arrays))}
    results["jit"] = classify(lambda: jax.jit(fn)(*arrays))
    results["eval_shape"] = classify(lambda: jax.eval_shape(fn, *arrays))
    batched = [jnp.ones((2,) + tuple(s), dtype="float32") for s in cs]
    results["vmap"] = classify(lambda: jax.vmap(fn)(*batched))
    results["jit(vmap)"] = classify(lambda: jax.jit(jax.vmap(fn))(*batched))
    results["vmap(jit)"] = classify(lambda: jax.vmap(jax.jit(fn))(*batched))
    if cr is not None and arrays:
        results["grad"] = classify(lambda: jax.grad(lambda *a: fn(*a).sum())(*arrays))
    V.reach("bridged")
    ok = all(v == results["eager"] for v in results.values())
    V.check("tracing-equals-eager", ok and results["eager"] == kindr, results=results, symbolic_verdict=kindr, shapes=cs, ret=cr)


def _key(inst, label, vals, info):
    return f"{label}|{inst!r}"


harness, concrete_run, replay, finding_key = base.make_api(scenario, _key)
