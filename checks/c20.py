"""C20 -- annotations survive pickling and copying with their meaning intact.

Real code executed: the copyreg reducer _pickle_array_annotation / _return_abstractarray,
_MetaAbstractDtype.__getitem__ on reconstruction, pickle / cloudpickle / copy / deepcopy
protocols; then the instance checks.  Original and reconstruction are probed with the *same
symbolic array* (shape = solver variables, rank and dtype name selectors) from equal symbolic
prior states: verdicts and bindings must coincide for all shapes, and the original must
answer as it did before serialisation.  Second-process route: the bytes are loaded in a fresh
interpreter and compared there, on a concrete probe grid, with an annotation rebuilt from the
recipe (the child cannot share solver state; stated as a concrete witness).
"""
import copy
import itertools
import os
import pickle
import random
import subprocess
import sys

from checks import base, c01
from checks.c15 import DTYPES
from env import usercats
from env.fakes import FakeArr, FakeArr2
from spec import compare, dims as D
from symx import core

PROPERTY = "C20"
TITLE = "Annotations survive pickling and copying with their meaning intact"

CATS = ["Float", "Float32", "Int", "Shaped", "Inexact", "Bool", "Key", "UInt8", "Num", "user:UserFloatish", "user:UserPattern"]
ARRTYPES = ["class", "any", "nested-narrow", "nested-wide", "nested-emptyouter", "nested-emptyinner", "union"]
DIMS = ["a b", "_ a", "... a", "*v", "#a 3", "", "a *v b", "x=3 a", "*_ a", "a+1 a"]
ROUTES = ["pickle", "pickle-p2", "cloudpickle", "copy", "deepcopy", "process"]


def instances(tier, seed):
    rng = random.Random(seed)
    out = []
    combos = list(itertools.product(CATS, ARRTYPES, DIMS))
    rng.shuffle(combos)
    n = 160 if tier == "quick" else len(combos)
    for i, (c, a, d) in enumerate(combos):
        for r in (ROUTES if i < 40 or tier == "thorough" else [rng.choice(ROUTES[:5])]):
            g = "core" if i < n else "ext"
            out.append((g, dict(cat=c, arrtype=a, dims=d, route=r)))
    out.append(("core", dict(cat="AbstractArray", arrtype="base", dims="", route="pickle")))
    for d in ("a", "*v", "a b"):
        for order in (0, 1):
            for route in ("pickle", "cloudpickle"):
                out.append(("core", dict(cat="Shaped", arrtype="pair", dims=d, route=route, order=order)))
    # a user category with regular-expression dtypes as the *inner* part of a nested annotation
    for c in ("Shaped", "user:UserBroad"):
        for d in ("a", "*v", ""):
            for r in ROUTES:
                out.append(("core", dict(cat=c, arrtype="nested-userinner", dims=d, route=r)))
    return out


BOUNDS = dict(recipes="%d categories (incl. 2 user categories importable by name) x %d array-type forms (class, Any, nested with narrower / wider inner category, nested with empty outer / inner dim string, union; a user pattern category nested inside Shaped / a broader user category; pairs of annotations differing only in effective dtypes serialised in one process by pickle and cloudpickle) x %d dim strings; quick: seeded 160 recipes" % (len(CATS), len(ARRTYPES), len(DIMS)),
              routes=ROUTES, probes="array rank 0..3 with unbounded sizes, dtype from a 14-name menu, two array classes, prior state of 0..1 accepted checks")
STUBS = c01.STUBS
ASSUMPTIONS = ["second-process route: comparison in the child is on a concrete probe grid (shapes over sizes 0..3 up to rank 3 x the dtype menu), not symbolic",
               "user categories live in the importable module env.usercats"]
REQUIRED_LABELS = {"roundtrip-verdict", "original-unchanged", "process-route"}
REQUIRED_WITNESS = {"route-pickle", "route-cloudpickle", "route-copy", "route-deepcopy", "route-process", "ACC", "REJ"}
BUDGET_S = {"quick": 150, "thorough": 900}
setup_worker = c01.setup_worker
preflight = c01.preflight


def get_cat(name):
    import jaxtyping as jt
    if name.startswith("user:"):
        return getattr(usercats, name[5:])
    return getattr(jt, name)


def build(inst):
    """annotation (or list of annotations for unions) from the recipe"""
    import jaxtyping as jt
    from typing import Any, Union
    cat = get_cat(inst["cat"])
    a, d = inst["arrtype"], inst["dims"]
    if a == "class":
        return cat[FakeArr, d]
    if a == "any":
        return cat[Any, d]
    if a == "union":
        return cat[Union[FakeArr, FakeArr2], d]
    if a == "nested-narrow":       # inner category narrower than (or unrelated to) the outer one
        inner = {"Float": jt.Float32, "Inexact": jt.Float32, "Num": jt.Int8, "Shaped": jt.Float, "Int": jt.Int8}.get(inst["cat"], cat)
        return cat[inner[FakeArr, "c"], d]
    if a == "nested-wide":
        inner = {"Float32": jt.Float, "UInt8": jt.Num, "Bool": jt.Shaped, "Key": jt.Shaped}.get(inst["cat"], jt.Shaped)
        return cat[inner[FakeArr, "c"], d]
    if a == "nested-userinner":
        return cat[usercats.UserPattern[FakeArr, "c"], d]
    if a == "nested-emptyouter":
        return cat[cat[FakeArr, d], ""]
    if a == "nested-emptyinner":
        return cat[cat[FakeArr, ""], d]
    raise KeyError(a)


def roundtrip(ann, route):
    if route == "pickle":
        return pickle.loads(pickle.dumps(ann))
    if route == "pickle-p2":
        return pickle.loads(pickle.dumps(ann, protocol=2))
    if route == "cloudpickle":
        import cloudpickle
        return pickle.loads(cloudpickle.dumps(ann))
    if route == "copy":
        return copy.copy(ann)
    if route == "deepcopy":
        return copy.deepcopy(ann)
    raise KeyError(route)


def members(ann):
    import typing
    return list(typing.get_args(ann)) if typing.get_origin(ann) is typing.Union else [ann]


def scenario(inst, V):
    import jaxtyping as jt
    from jaxtyping import jaxtyped
    if inst["cat"] == "AbstractArray":
        r = pickle.loads(pickle.dumps(jt.AbstractArray))
        V.check("roundtrip-verdict", r is jt.AbstractArray)
        return dict(base=True)
    if inst["arrtype"] == "pair":
        return scenario_pair(inst, V)
    try:
        ann = build(inst)
    except ValueError:
        raise core.PathAbort("recipe not constructible (e.g. empty dtype intersection)")
    route = inst["route"]
    V.reach("route-" + route.split("-")[0])
    if route == "process":
        return scenario_process(inst, V, ann)
    origs = members(ann)
    # probe set-up shared by all three runs
    cls = (FakeArr, FakeArr2)[V.choose("cls", 2)]
    rank = V.choose("rank", 4)
    shape = [V.int(f"s{i}", 0) for i in range(rank)]
    dt = DTYPES[V.choose("dt", len(DTYPES))]
    prior = V.choose("prior", 2)
    ps = [V.int("q0", 0), V.int("q1", 0)]

    def probe(a):
        with jaxtyped("context"):
            if prior and not isinstance(FakeArr(tuple(ps)), jt.Shaped[FakeArr, "a b"]):
                raise core.PathAbort("prior")
            got = c01.observe_check(cls(tuple(shape), dt), a)
            return got, base.bindings()

    before = [probe(a) for a in origs]
    try:
        rt = roundtrip(ann, route)
        err = None
    except (core.PathAbort, core.Unsupported, core.Nondeterminism, core.StopPath):
        raise
    except Exception as e:  # noqa
        rt, err = None, f"{type(e).__name__}: {e}"
    if err is not None:
        V.check("roundtrip-verdict", False, why="serialisation failed: " + err, route=route)
        return dict(err=err)
    news = members(rt)
    V.check("roundtrip-verdict", len(news) == len(origs), why="number of union members changed")
    after_orig = [probe(a) for a in origs]
    for (g0, b0), (g1, b1) in zip(before, after_orig):
        V.check("original-unchanged", g0 == g1, before=str(g0), after=str(g1))
        if g0 == g1:
            compare.check_unchanged(V, "original-unchanged-bindings", b0, b1)
    for a_new, (g0, b0) in zip(news, before):
        try:
            g2, b2 = probe(a_new)
        except (core.PathAbort, core.Unsupported, core.Nondeterminism, core.StopPath):
            raise
        except Exception as e:  # noqa
            g2, b2 = "EXC:" + type(e).__name__, None
        if g0 in (0, 1):
            V.reach("ACC" if g0 == 0 else "REJ")
        V.check("roundtrip-verdict", g0 == g2, original=str(g0), reconstructed=str(g2), dtype=dt, route=route)
        if g0 == g2 and b2 is not None:
            compare.check_unchanged(V, "roundtrip-bindings", b0, b2)
    return dict(route=route, verdicts=[str(g) for g, _ in before])


def scenario_pair(inst, V):
    """Two annotations with the same outer category, array type and flattened dim string but
    different effective dtypes are both reconstructed in this process; each reconstruction
    must keep its own meaning whatever the order of loading."""
    import jaxtyping as jt
    from jaxtyping import jaxtyped
    d = inst["dims"]
    narrow = jt.Shaped[jt.Float32[FakeArr, "c"], d]
    wide = jt.Shaped[FakeArr, (d + " c").strip()]
    if inst["route"] == "cloudpickle":
        import cloudpickle
        blobs = [cloudpickle.dumps(narrow), cloudpickle.dumps(wide)]
    else:
        blobs = [pickle.dumps(narrow), pickle.dumps(wide)]
    order = [0, 1] if inst["order"] == 0 else [1, 0]
    loaded = {}
    for i in order:
        loaded[i] = pickle.loads(blobs[i])
    rank = V.choose("rank", 4)
    shape = [V.int(f"s{i}", 0) for i in range(rank)]
    dt = DTYPES[V.choose("dt", len(DTYPES))]
    for i, orig in ((0, narrow), (1, wide)):
        res = []
        for a in (orig, loaded[i]):
            with jaxtyped("context"):
                res.append(c01.observe_check(FakeArr(tuple(shape), dt), a))
        V.check("roundtrip-verdict", res[0] == res[1], original=str(res[0]), reconstructed=str(res[1]), dtype=dt,
                which=("narrow", "wide")[i], order=inst["order"])
        if res[0] in (0, 1):
            V.reach("ACC" if res[0] == 0 else "REJ")
    V.reach("route-" + inst["route"])
    return dict(pair=True)


CHILD = r'''
import sys, pickle, json, itertools
sys.path.insert(0, {repo!r}); sys.path.insert(0, {verif!r})
from checks import c20
from checks.c15 import DTYPES
from env.fakes import FakeArr, FakeArr2
from jaxtyping import jaxtyped
inst = json.loads({inst!r})
loaded = pickle.loads(bytes.fromhex({blob!r}))
ref = c20.build(inst)
bad = []
shapes = [()] + [s for r in (1, 2, 3) for s in itertools.product((0, 1, 2, 3), repeat=r)]
for a, b in zip(c20.members(loaded), c20.members(ref)):
    for cls in (FakeArr, FakeArr2):
        for dt in DTYPES:
            for sh in shapes:
                res = []
                for ann in (a, b):
                    with jaxtyped("context"):
                        try:
                            res.append(isinstance(cls(sh, dt), ann))
                        except Exception as e:
                            res.append(type(e).__name__)
                if res[0] != res[1]:
                    bad.append([cls.__name__, dt, list(sh), res])
print("RESULT" + json.dumps(dict(n=len(shapes) * len(DTYPES) * 2, bad=bad[:5], nbad=len(bad), members=[len(c20.members(loaded)), len(c20.members(ref))])))
'''


def scenario_process(inst, V, ann):
    import json
    from checks import common
    blob = pickle.dumps(ann).hex()
    p = subprocess.run([sys.executable, "-c", CHILD.format(repo=common.REPO, verif=common.VERIF, inst=json.dumps(inst), blob=blob)],
                       capture_output=True, text=True, timeout=600)
    line = [l for l in p.stdout.splitlines() if l.startswith("RESULT")]
    if not line:
        V.check("process-route", False, why="child failed", stderr=p.stderr[-600:])
        return dict(child="failed")
    res = json.loads(line[-1][6:])
    V.check("process-route", res["nbad"] == 0 and res["members"][0] == res["members"][1], result=res)
    return dict(child=res["n"], nbad=res["nbad"])


def _key(inst, label, vals, info):
    if inst.get("route") == "cloudpickle" and any(t in inst["dims"].split() or t.startswith("*_") for t in ("_", "...", "*_") for _ in [0]) \
            and any(tok in ("_", "...", "*_") or tok.startswith("_") for tok in inst["dims"].split()):
        return "cloudpickle-anonymous-axis-sentinels"
    return f"{label}|{inst!r}"


harness, concrete_run, replay, finding_key = base.make_api(scenario, _key)
