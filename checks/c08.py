"""C08 -- PyTree[L] accepts exactly the trees all of whose leaves match L.

Real code executed symbolically: _MetaPyTree.__instancecheck__ / _check (leaf discovery via
jax tree_flatten with is_leaf, tree-flatten mode, per-leaf checks through the vendored
typeguard, rollback), the array instance checks for the leaves.  Leaf shapes and prior
bindings are solver variables; the tree skeleton, leaf type and non-array leaf values are
selectors.  Oracle: spec.trees (reference leaf discovery + sequential leaf semantics).
"""
import itertools
import random

from checks import base, c01
from spec import compare, dims as D, trees as T
from symx import core

PROPERTY = "C08"
TITLE = "PyTree[L] accepts exactly the trees all of whose leaves match L"

SKEL = {
    "leaf": (1, lambda l: l[0]),
    "t1": (1, lambda l: (l[0],)),
    "t2": (2, lambda l: (l[0], l[1])),
    "nest": (3, lambda l: [l[0], (l[1], l[2])]),
    "dict": (4, lambda l: {"p": l[0], "q": [l[1], l[2], l[3]]}),
    "none": (2, lambda l: (l[0], None, l[1])),
    "empty": (1, lambda l: [l[0], [], ()]),
    "nt": (2, lambda l: T.Point(l[0], l[1])),
    "node": (2, lambda l: T.Node(l[0], (l[1],))),
    "deep": (3, lambda l: ((l[0], [l[1]]), {"k": (l[2],)})),
    "deep4": (3, lambda l: [[[(l[0],)], {"z": [l[1], None]}], l[2]]),
    "None": (0, lambda l: None),
    "emptyonly": (0, lambda l: ([], {})),
}

# values JAX itself cannot flatten (unorderable dict keys, a node whose flatten raises) and plain
# objects: bare `PyTree` accepts everything, so it must not try
BARE = {
    "mixdict": lambda l: {1: l[0], "two": l[1]},
    "mixdict-nested": lambda l: [({1: l[0], "two": l[1]},), l[1]],
    "badnode": lambda l: T.BadNode(l[0], l[1]),
    "badnode-nested": lambda l: {"k": [T.BadNode(l[0]), l[1]]},
    "object": lambda l: object(),
    "array": lambda l: l[0],
}

ARR_SPECS = [("arr", "a b"), ("arr", "*v a"), ("arr", "#a"), ("arr", "a"), ("arr", "a a+1"),
             ("union", [("arr", "a 3"), ("arr", "a b")]), ("union", [("arr", "a"), ("py", "int")]),
             ("tup", [("arr", "a"), ("arr", "a b")]), ("arr", "*#v"), ("union", [("arr", "c+1"), ("arr", "a")]),
             ("union604", [("arr", "a 3"), ("arr", "a b")]), ("union604", [("arr", "a"), ("py", "int")])]
PY_SPECS = [("py", "int"), ("py", "str"), ("py", "float"), ("union", [("py", "float"), ("py", "str")]),
            ("tup", [("py", "int"), ("py", "int")]),
            ("union", [("py", "int"), ("py", "str")]), ("any",),
            ("union604", [("py", "int"), ("py", "str")]), ("union604", [("py", "float"), ("tup", [("py", "int"), ("py", "int")])])]
PYVALS = {"int": 1, "str": "s", "pair": (1, 2), "badpair": (1, "s"), "float": 2.5}
PRIORS = [[], ["a"], ["a b"], ["*v"], ["*#v"]]


def instances(tier, seed):
    rng = random.Random(seed)
    out = []
    rounds = 1 if tier == "quick" else 5
    mr = 2 if tier == "quick" else 3
    for _round in range(rounds):
      for sk, (n, _) in SKEL.items():
          for spec in ARR_SPECS:
              kinds_list = [["arr"] * n]
              if n:
                  k = ["arr"] * n
                  k[rng.randrange(n)] = rng.choice(["int", "pair"])
                  kinds_list.append(k)
                  if spec[0] == "tup":
                      kinds_list.append(["arrpair"] * n)
                      k2 = ["arrpair"] * n
                      k2[rng.randrange(n)] = "arr"
                      kinds_list.append(k2)
              for kinds in kinds_list:
                  for p in ([[]] if rng.random() < 0.5 else []) + [rng.choice(PRIORS)]:
                      out.append(("pool", dict(skel=sk, spec=spec, kinds=kinds, prior=p, maxrank=mr)))
          for spec in PY_SPECS:
              for _ in range(2):
                  kinds = [rng.choice(list(PYVALS)) for _ in range(n)]
                  out.append(("pool", dict(skel=sk, spec=spec, kinds=kinds, prior=[], maxrank=1)))
              if n:
                  kinds = [rng.choice(list(PYVALS)) for _ in range(n)]
                  kinds[0] = "arr"
                  out.append(("pool", dict(skel=sk, spec=spec, kinds=kinds, prior=["a"], maxrank=1)))
    for sk in ("nt", "t2", "nest"):
        out.append(("pool", dict(skel=sk, spec=("tup", [("py", "int"), ("py", "int")]), kinds=["int"] * SKEL[sk][0], prior=[], maxrank=1)))
        out.append(("pool", dict(skel=sk, spec=("union", [("tup", [("py", "int"), ("py", "int")]), ("py", "str")]),
                                 kinds=["int"] * SKEL[sk][0], prior=[], maxrank=1)))
    rng.shuffle(out)
    for b in BARE:
        out.insert(0, ("pool", dict(skel=b, bareonly=True, kinds=["arr", "arr"], maxrank=1, spec=("any",), prior=[])))
    ncore = 260 if tier == "quick" else len(out)
    return [("core" if i < ncore else "ext", x) for i, (_, x) in enumerate(out)]


BOUNDS = dict(skeletons="%d tree skeletons over tuples/lists/dicts/None/namedtuple/registered node, depth <=4, <=4 leaves" % len(SKEL),
              leaf_types=[repr(s) for s in ARR_SPECS + PY_SPECS], leaf_rank="0..2 per array leaf for trees of <=2 leaves, {k-1,k} (k = axes of the leaf type) for larger trees; sizes unbounded",
              prior="0..1 prior accepted array checks", nesting="PyTree[L] vs PyTree[PyTree[L]] compared on every instance")
STUBS = c01.STUBS
ASSUMPTIONS = ["tree skeleton, leaf type and non-array leaf values are selectors (enumerative residue); jax tree_flatten (C++) runs concretely",
               "unions inside leaf types (typing.Union and `X | Y`) are checked by the vendored typeguard in declaration order"]
REQUIRED_LABELS = {"verdict", "post-bindings", "unchanged", "nesting-verdict", "nesting-bindings", "bare", "none-accepted"}
REQUIRED_WITNESS = {"ACC", "REJ", "ERR"}
BUDGET_S = {"quick": 200, "thorough": 1800}


def setup_worker():
    c01.setup_worker()
    T.register_node()


preflight = c01.preflight


def observe(tree, ann):
    from jaxtyping import AnnotationError
    try:
        return "ACC" if isinstance(tree, ann) else "REJ"
    except AnnotationError:
        return "ERR"
    except (core.PathAbort, core.Unsupported, core.Nondeterminism, core.StopPath):
        raise
    except Exception as e:  # noqa
        return "EXC:" + type(e).__name__


def first_dims(spec):
    if spec[0] == "arr":
        return spec[1]
    if spec[0] in ("union", "union604", "tup"):
        for s in spec[1]:
            d = first_dims(s)
            if d is not None:
                return d
    return None


def rank_options(inst):
    """Ranks tried for an array leaf: 0..2 for small trees, else the natural rank of the leaf
    type and one below (keeps the product over leaves small)."""
    n = len(inst["kinds"])
    if n <= 2:
        return list(range(inst["maxrank"] + 1))
    d = first_dims(_tuplify(inst["spec"]))
    k = len(d.split()) if d else 1
    return sorted({max(k - 1, 0), k})


def make_leaves(inst, V):
    leaves = []
    for i, k in enumerate(inst["kinds"]):
        if k == "arr":
            opts = rank_options(inst)
            r = opts[V.choose(f"r{i}", len(opts))]
            leaves.append(V.arr([V.int(f"l{i}_{j}", 0) for j in range(r)]))
        elif k == "arrpair":
            leaves.append((V.arr([V.int(f"l{i}_a", 0)]), V.arr([V.int(f"l{i}_b", 0), V.int(f"l{i}_c", 0)])))
        else:
            leaves.append(PYVALS[k])
    return leaves


def scenario(inst, V):
    import jaxtyping as jt
    from jaxtyping import jaxtyped, PyTree
    T.register_node()
    spec = tuple(inst["spec"]) if not isinstance(inst["spec"], tuple) else inst["spec"]
    spec = _tuplify(spec)
    leaves = make_leaves(inst, V)
    if inst.get("bareonly"):
        return scenario_bare(inst, V, leaves)
    tree = SKEL[inst["skel"]][1](leaves)
    ann = PyTree[T.to_ann(spec, V.ARR)]
    ann2 = PyTree[PyTree[T.to_ann(spec, V.ARR)]]
    results = []
    for which, a in (("single", ann), ("double", ann2)):
        with jaxtyped("context"):
            B = _logging_run_priors(inst, V, {}) if which == "single" else _replay_priors(inst, V)
            pre = base.bindings()
            got = observe(tree, a)
            post = base.bindings()
            results.append((got, pre, post))
            if which == "single":
                exp, B2 = T.tree_check(V, spec, tree, None, B, V.ARR)
                V.reach(got)
                V.check("verdict", got == exp, got=got, expected=exp)
                if got == "ACC" and exp == "ACC":
                    compare.check_bindings(V, "post-bindings", post, B2)
                if got != "ACC":
                    compare.check_unchanged(V, "unchanged", pre, post, verdict=got)
                V.check("bare", isinstance(tree, PyTree) is True)
                V.check("none-accepted", isinstance(None, a) is True)
    (g1, _, p1), (g2, _, p2) = results
    V.check("nesting-verdict", g1 == g2, single=g1, double=g2)
    if g1 == g2:
        compare.check_unchanged(V, "nesting-bindings", p1, p2)
    return dict(single=g1, double=g2, bindings=p1["single"])


def scenario_bare(inst, V, leaves):
    """bare PyTree accepts everything: also what JAX cannot flatten, inside and outside a context,
    and as a parameter annotation under both typecheckers"""
    from checks import fnlib
    from jaxtyping import jaxtyped, PyTree
    tree = BARE[inst["skel"]](leaves)
    out = []
    out.append(observe(tree, PyTree))
    with jaxtyped("context"):
        pre = base.bindings()
        out.append(observe(tree, PyTree))
        compare.check_unchanged(V, "unchanged", pre, base.bindings(), verdict="bare")
    for tc in ("typeguard", "beartype"):
        fnlib.HOLD["ret"] = None
        fnlib.HOLD["body_exc"] = None
        fn, pn = fnlib.build([None], None, V.ARR, tc, "function", anns=[PyTree])
        kind, _ = fnlib.call(fn, pn, [tree], "pos")
        out.append(kind)
    V.check("bare", out == ["ACC", "ACC", "OK", "OK"], got=out, value=inst["skel"])
    return dict(bare=out)


def _replay_priors(inst, V):
    """Second context: the same prior checks on the same symbolic shapes (variables are shared
    by name, so V.choose / V.int would re-declare them: replay from the recorded arrays)."""
    import jaxtyping as jt
    for pd, arr in _prior_log:
        if not isinstance(arr, jt.Float[V.ARR, pd]):
            raise core.PathAbort("prior not accepted on replay")
    return None


_prior_log = []


def _logging_run_priors(inst, V, args):
    _prior_log.clear()
    import jaxtyping as jt
    B = D.Bindings()
    for k, pd in enumerate(inst["prior"]):
        pdims = D.parse_ref(pd)
        pr = V.choose(f"pr{k}", min(3, len(pdims) + 1) + 1)
        pshape = [V.int(f"p{k}_{i}", 0) for i in range(pr)]
        arr = V.arr(pshape)
        got = c01.observe_check(arr, jt.Float[V.ARR, pd])
        if got != D.ACC:
            raise core.PathAbort("prior check not accepted")
        B = D.step(pdims, [core.lift(s) for s in pshape], B, args)["B"]
        _prior_log.append((pd, arr))
    return B


def _tuplify(s):
    if isinstance(s, (list, tuple)):
        if s and s[0] in ("arr", "py", "any", "tup", "union", "union604", "tree"):
            if s[0] in ("tup", "union", "union604"):
                return (s[0], [_tuplify(x) for x in s[1]])
            if s[0] == "tree":
                return ("tree", _tuplify(s[1]))
            return tuple(s)
    return s


def _key(inst, label, vals, info):
    return f"{label}|{inst['skel']}|{inst['spec']!r}|{inst['kinds']!r}|{inst['prior']!r}"


harness, concrete_run, replay, finding_key = base.make_api(scenario, _key)
