"""C14 -- the dim-string language: modifier order is free, illegal forms are ValueError.

Real code executed symbolically: _MetaAbstractDtype.__getitem__ -> _make_array ->
_make_array_cached (strip, split, the modifier loop, classification, the ValueError
branches) on a specification whose *characters are solver variables*.
 (i)  'free': the whole spec is one symbolic string of n characters over a 16-character
      alphabet (all modifier characters, '=', letters, digits, operators, '.', ',', '(', space,
      tab): one path covers a whole class of strings.
      Obligations: building either succeeds or raises ValueError (never anything else);
      documented illegal forms raise ValueError; specs of the documented grammar are
      accepted with the documented structure (per-axis kind/flags/name compared as solver
      terms).
 (ii) 'struct': tokens made of symbolic modifier characters in symbolic order, an optional
      'd=' prefix at a symbolic position, concrete bases, symbolic whitespace; the built
      annotation is then *probed* with isinstance on symbolic shapes and must behave as the
      reference meaning of the canonical spelling (spec.dims.step).
 (iii) non-string specifications must raise ValueError.
"""
import itertools
import random

import z3

from checks import base, c01
from spec import compare, dims as D, parser_ref as P
from symx import core, symstr as S

PROPERTY = "C14"
TITLE = "The dim-string language: modifier order is free, illegal forms are ValueError"

ALPHABET = "#*_?=ab01+-.,( \t"
WS = " \t\n"
BASES = ["ab", "12", "ab+1", "", "...", "c"]


OTHER = ["ab", "#c", "*v", "3", "...", "_", "c+1", "#2"]


def instances(tier, seed):
    rng = random.Random(seed)
    out = []
    ncore = 4 if tier == "quick" else 5
    for n in range(0, ncore + 2):
        g = "core" if n <= ncore else "ext"
        if n <= 3:
            out.append((g, dict(kind="free", n=n, prefix="")))
        elif n <= 5:
            for c in ALPHABET:
                out.append((g, dict(kind="free", n=n, prefix=c)))
        else:
            for c in itertools.product(ALPHABET, repeat=2):
                out.append((g, dict(kind="free", n=n, prefix="".join(c))))
    # structured tokens: one token with symbolic modifiers among concrete neighbours
    structs = []
    for bi in range(len(BASES)):
        if BASES[bi] == "...":
            continue
        for k in (1, 2, 3) if tier == "quick" else (1, 2, 3, 4):
            for pos in range(k):
                for _ in range(2 if k > 1 else 1):
                    others = [rng.choice(OTHER) for _ in range(k - 1)]
                    structs.append(dict(kind="struct", base=bi, pos=pos, others=others,
                                        nmods=3 if tier == "quick" else 4, doc=rng.randrange(2)))
    rng.shuffle(structs)
    nc = 14 if tier == "quick" else len(structs)
    for i, st in enumerate(structs):
        out.append(("core" if i < nc else "ext", st))
    # whitespace family: concrete tokens, symbolic whitespace runs
    for toks in (["ab"], ["ab", "#c", "3"], ["*v", "d=ab"], ["...", "_", "#1"], ["a+1", "?ab"]):
        out.append(("core", dict(kind="ws", toks=toks)))
    for v in ["int", "none", "tuple", "list", "bytes", "float", "ellipsis"]:
        out.append(("core", dict(kind="nonstr", what=v)))
    ext = [x for x in out if x[0] != "core"]
    rng.shuffle(ext)
    return [x for x in out if x[0] == "core"] + ext


BOUNDS = {"quick": dict(free="every string of length <=4 (core) and 5 (soft budget) over the 16-character alphabet %r" % ALPHABET,
                        free_note="length 5 is explored as far as the soft budget allows (see instances_skipped_soft_budget)",
                        struct="1..3 tokens; one token carries <=3 symbolic modifier characters in symbolic order and an optional d= prefix at a symbolic position, over bases %r; neighbours concrete; probe shapes rank n-1..n+1, sizes unbounded, 2 prior states" % BASES,
                        ws="5 token lists with symbolic whitespace runs (0..2 chars of space/tab/newline) before, between, after",
                        nonstr="int, None, tuple, list, bytes, float, Ellipsis"),
          "thorough": dict(free="every string of length <=5 (core) and 6 (soft budget) over the alphabet",
                           struct="1..4 tokens, <=4 modifier characters, otherwise as quick", ws="as quick", nonstr="as quick")}
STUBS = ["SymStr (str subclass with solver-variable characters; self-tested against str on every run)"] + c01.STUBS
ASSUMPTIONS = ["ASCII alphabet only", "a spec outside the documented grammar (stray '=' forms, empty names) is only checked for totality",
               "structure comparison in (i) reads AbstractArray.dims / index_variadic; if those attributes are absent the comparison is skipped (recorded), (ii) does not depend on them"]
REQUIRED_LABELS = {"total", "illegal-is-ValueError", "legal-accepted", "structure", "probe-verdict", "nonstring-ValueError"}
REQUIRED_WITNESS = {"built", "ValueError", "UNSPEC"}
BUDGET_S = {"quick": 200, "thorough": 2400}
MAX_PATHS = 2000000
setup_worker = c01.setup_worker


def preflight(tier):
    """Differential self-test of SymStr against str (all strings of length <=3 over a small
    alphabet, concrete-valued SymStr objects: every method must agree with str)."""
    alpha = "#_a1= ."
    n = 0
    for L in range(0, 4):
        for t in itertools.product(alpha, repeat=L):
            s = "".join(t)
            sym = S.SymStr([z3.IntVal(ord(c)) + 0 for c in s]) if s else None
            if sym is None:
                continue
            checks = [
                ("strip", lambda x: x.strip()), ("split", lambda x: x.split()),
                ("split=", lambda x: x.split("=")), ("count", lambda x: x.count("=")),
                ("isid", lambda x: x.isidentifier()), ("ends", lambda x: x.endswith("#")),
                ("starts", lambda x: x.startswith("#_")), ("in", lambda x: "." in x),
                ("idx", lambda x: x[0]), ("slice", lambda x: x[1:]), ("lower", lambda x: x.lower()),
                ("eq", lambda x: x == "a1"), ("rsplit", lambda x: x.rsplit(".", 1)),
                ("len", lambda x: len(x)),
            ]
            for name, f in checks:
                want = f(s)
                got = f(sym)
                got = _plain(got)
                if got != want:
                    raise AssertionError(f"SymStr.{name} differs from str on {s!r}: {got!r} vs {want!r}")
                n += 1
            try:
                want = int(s)
            except ValueError:
                want = "VE"
            try:
                got = int(sym)
            except ValueError:
                got = "VE"
            if got != want:
                raise AssertionError(f"int(SymStr) differs on {s!r}: {got!r} vs {want!r}")
    return [f"SymStr == str on {n} (method, string) pairs, strings of length <=3 over {alpha!r}"] + c01.preflight(tier)


def _plain(x):
    if isinstance(x, (core.SymBool, core.SymInt)):
        e = z3.simplify(x.e)
        return z3.is_true(e) if isinstance(x, core.SymBool) else e.as_long()
    if isinstance(x, S.SymStr):
        return "".join(chr(z3.simplify(i).as_long() if not isinstance(i, int) else i) for i in x.items)
    if isinstance(x, list):
        return [_plain(i) for i in x]
    return x


def build(spec):
    """Real annotation construction.  -> ('built', ann) | ('ValueError', e) | ('EXC:...', e)"""
    import jaxtyping as jt
    import jaxtyping._array_types as at
    from env.fakes import FakeArr
    # memoisation inside jaxtyping must not carry results from one explored path to the next
    # (a symbolic key pinned by forking hashes like the concrete string it stands for)
    for f in vars(at).values():
        if hasattr(f, "cache_clear"):
            f.cache_clear()
    try:
        with S.allow_identity_hash():
            ann = jt.Shaped[FakeArr, spec]
        return "built", ann
    except ValueError as e:
        return "ValueError", e
    except (core.PathAbort, core.Unsupported, core.Nondeterminism, core.StopPath):
        raise
    except Exception as e:  # noqa
        return "EXC:" + type(e).__name__, e


def impl_structure(ann):
    """Per-axis structure of a built annotation in reference dict format (guarded: internals)."""
    import jaxtyping._array_types as at
    out = []
    for d in ann.dims:
        if d is at._anonymous_dim:
            out.append(dict(kind="anon", bc=False, tp=False))
        elif d is at._anonymous_variadic_dim:
            out.append(dict(kind="anonvar", bc=False, tp=False))
        elif type(d) is at._NamedDim:
            out.append(dict(kind="named", name=d.name, bc=d.broadcastable, tp=d.treepath))
        elif type(d) is at._NamedVariadicDim:
            out.append(dict(kind="namedvar", name=d.name, bc=d.broadcastable, tp=d.treepath))
        elif type(d) is at._FixedDim:
            out.append(dict(kind="fixed", size=d.size, bc=d.broadcastable, tp=False))
        elif type(d) is at._SymbolicDim:
            out.append(dict(kind="expr", expr=d.elem, bc=d.broadcastable, tp=False))
        else:
            raise AttributeError("unknown dim representation")
    iv = [i for i, d in enumerate(out) if d["kind"] in ("anonvar", "namedvar")]
    if (ann.index_variadic is None) != (not iv) or (iv and ann.index_variadic != iv[0]):
        out.append(dict(kind="BAD-index_variadic", bc=False, tp=False))
    return out


def same_structure(a, b):
    """z3 Bool / bool: two structure lists equal (names / expr compared as strings)"""
    if len(a) != len(b):
        return False
    conds = []
    for x, y in zip(a, b):
        if x["kind"] != y["kind"] or bool(x["bc"]) != bool(y["bc"]) or bool(x["tp"]) != bool(y["tp"]):
            return False
        for f in ("name", "expr", "size"):
            if f in x:
                r = (x[f] == y[f])
                if isinstance(r, bool):
                    if not r:
                        return False
                else:
                    conds.append(r.e)
    return z3.And(*conds) if conds else True


def scenario(inst, V):
    kind = inst["kind"]
    if kind == "nonstr":
        spec = {"int": 3, "none": None, "tuple": ("a", "b"), "list": ["a"], "bytes": b"a b", "float": 1.5,
                "ellipsis": ...}[inst["what"]]
        outcome, _ = build(spec)
        V.reach(outcome)
        V.check("nonstring-ValueError", outcome == "ValueError", outcome=outcome, spec=repr(spec))
        return dict(outcome=outcome)
    if kind == "free":
        n, prefix = inst["n"], inst["prefix"]
        rest = V.str("c", n - len(prefix), ALPHABET) if n > len(prefix) else ""
        spec = prefix + rest if prefix else rest
        if isinstance(spec, str) and not isinstance(spec, S.SymStr) and not V.concrete:
            pass
        outcome, res = build(spec)
        V.reach(outcome)
        V.check("total", outcome in ("built", "ValueError"), outcome=outcome)
        cls, ref = P.ref_spec(spec)
        V.reach(cls)
        if cls == "VE":
            V.check("illegal-is-ValueError", outcome == "ValueError", outcome=outcome, reason=ref)
        elif cls == "OK":
            V.check("legal-accepted", outcome == "built", outcome=outcome)
            if outcome == "built":
                try:
                    st = impl_structure(res)
                except AttributeError:
                    V.reach("structure-unavailable")
                    st = None
                if st is not None:
                    V.check("structure", same_structure(st, ref), impl=[d["kind"] for d in st],
                            ref=[d["kind"] for d in ref])
        return dict(outcome=outcome, cls=cls)
    if kind == "struct":
        return scenario_struct(inst, V)
    if kind == "ws":
        return scenario_ws(inst, V)
    raise AssertionError(kind)


def scenario_struct(inst, V):
    base_s = BASES[inst["base"]]
    nm = V.choose("nm", inst["nmods"] + 1)
    mods = V.str("m", nm, P.MODS) if nm else ""
    mitems = list(mods.items) if isinstance(mods, S.SymStr) else [ord(c) for c in mods]
    if inst["doc"]:
        pos = V.choose("docpos", nm + 1)
        mitems = mitems[:pos] + [ord("d"), ord("=")] + mitems[pos:]
    active = mitems + [ord(c) for c in base_s]
    toks = list(inst["others"])
    items = []
    k = len(toks) + 1
    oi = 0
    for i in range(k):
        if i:
            items.append(32)
        if i == inst["pos"]:
            items += active
        else:
            items += [ord(c) for c in toks[oi]]
            oi += 1
    spec = S.make(items)
    return build_and_probe(V, spec, ntok=k, symbolic_probe=True)


def scenario_ws(inst, V):
    items = []

    def ws(tag, lo):
        n = V.choose(f"w{tag}", 3 - lo) + lo
        if n == 0:
            return []
        w = V.str(f"ws{tag}", n, WS)
        return list(w.items) if isinstance(w, S.SymStr) else [ord(c) for c in w]

    items += ws("L", 0)
    for i, t in enumerate(inst["toks"]):
        if i:
            items += ws(i, 1)
        items += [ord(c) for c in t]
    items += ws("R", 0)
    spec = S.make(items)
    return build_and_probe(V, spec, ntok=len(inst["toks"]), symbolic_probe=False)


def build_and_probe(V, spec, ntok, symbolic_probe):
    from jaxtyping import jaxtyped
    outcome, ann = build(spec)
    V.reach(outcome)
    V.check("total", outcome in ("built", "ValueError"), outcome=outcome)
    cls, ref = P.ref_spec(spec)
    V.reach(cls)
    if cls == "VE":
        V.check("illegal-is-ValueError", outcome == "ValueError", outcome=outcome, reason=ref)
        return dict(outcome=outcome, cls=cls)
    if cls != "OK":
        return dict(outcome=outcome, cls=cls)
    V.check("legal-accepted", outcome == "built", outcome=outcome)
    if outcome != "built":
        return dict(outcome=outcome, cls=cls)
    for d in ref:
        for f in ("name", "expr"):
            if f in d and isinstance(d[f], S.SymStr):
                raise core.Unsupported("struct family: symbolic name in reference")
    with jaxtyped("context"):
        import jaxtyping as jt
        from env.fakes import FakeArr
        B = D.Bindings()
        if symbolic_probe:
            if V.choose("prior", 2) == 1:
                pr = [V.int("q0", 0), V.int("q1", 0)]
                if not isinstance(FakeArr(tuple(pr)), jt.Shaped[FakeArr, "ab c"]):
                    raise core.PathAbort("prior rejected")
                B = D.step(D.parse_ref("ab c"), [core.lift(x) for x in pr], B)["B"]
            rank = max(0, ntok - 1 + V.choose("rank", 3))
            shape = [V.int(f"s{i}", 0) for i in range(rank)]
        else:
            rank = ntok + V.choose("rank", 2)
            shape = [(2, 3, 1, 4, 2, 3)[i] for i in range(rank)]
        got = c01.observe_check(FakeArr(tuple(shape)), ann)
        post = base.bindings()
        st = D.step(ref, [core.lift(s) for s in shape], B)
        if got in (D.ACC, D.REJ, D.ERR):
            V.check("probe-verdict", D.verdict_allowed(st, got), got=D.VERDICT[got])
            if got == D.ACC:
                compare.check_bindings(V, "probe-bindings", post, st["B"])
        else:
            V.check("probe-verdict", False, got=str(got))
    return dict(outcome=outcome, cls=cls, verdict=str(got))


def _key(inst, label, vals, info):
    return f"{label}|{sorted(inst.items())!r}"


harness, concrete_run, replay, finding_key = base.make_api(scenario, _key)
