"""C06 -- threads never see each other's bindings or transient check state.

Scheduler model (stated up front): each logical thread is a *real OS thread* using
jaxtyping's real threading.local storage; only one of them runs at a time (strict hand-off),
and control can change hands (a) between two operations of a thread and (b) *inside* an
operation at every point where jaxtyping calls out into user code (array .shape/.dtype access,
custom PyTree flatten function, leaf __instancecheck__) -- the windows named in the property.
At such a point the scheduler may run the next operation of another thread to completion
(non-preemptive nesting, itself interruptible the same way).  Which thread runs when is a
solver-branched schedule selector; all shapes are solver variables.  Pre-emption between two
bytecodes inside one storage function is outside the model.
Oracle: every thread's verdicts and observed bindings equal those of the same workload run
alone (reference interpreter with a private stack of binding maps per thread).
Replay: the counterexample schedule is enforced on real OS threads (same mechanism).
"""
import contextlib
import queue
import random
import threading

import z3

from checks import base, c01, c05
from checks.c12 import Node, RaisingLeaf  # registered node / leaf type with call-outs
from checks import c12
from env.fakes import FakeArr
from spec import compare, dims as D, trees as T
from symx import core

PROPERTY = "C06"
TITLE = "Threads never see each other's bindings or transient check state"

OPS = [
    ["enter"], ["exit"], ["observe"],
    ["check", "p"], ["check", "p p"], ["check", "p q"], ["check", "*v p"], ["check", "q p+1"],
    ["tree", "p ?a", "T"], ["tree", "?a", "T"], ["tree", "p", None], ["ntree", "p ?a", "T"],
    ["call", "new-typeguard"], ["call", "none"], ["call", "old-typeguard"],
    ["qmark"],
]

WORKLOADS = [
    [["check", "p p"]],
    [["check", "p"]],
    [["enter"], ["check", "p"], ["check", "p q"], ["observe"]],
    [["enter"], ["check", "p p"], ["observe"], ["exit"]],
    [["tree", "p ?a", "T"]],
    [["enter"], ["tree", "p ?a", "T"], ["tree", "?a", "T"], ["observe"]],
    [["ntree", "p ?a", "T"], ["qmark"]],
    [["call", "new-typeguard"], ["check", "p"]],
    [["call", "none"], ["observe"]],
    [["call", "old-typeguard"]],
    [["enter"], ["check", "*v p"], ["check", "*v p"], ["observe"]],
    [["check", "q p+1"], ["qmark"]],
    [["tree", "p", None], ["check", "p p"]],
    [["enter"], ["check", "p"], ["exit"], ["check", "p"]],
    [["qmark"], ["tree", "?a", "T"]],
    [["enter"], ["enter"], ["check", "p"], ["exit"], ["observe"], ["exit"]],
    [["enter"], ["check", "p"], ["exit"], ["check", "p p"]],
    [["enter"], ["check", "q"], ["enter"], ["check", "q"], ["exit"], ["check", "q"], ["observe"]],
]


def instances(tier, seed):
    rng = random.Random(seed)
    out = []
    pairs = [(a, b) for a in range(len(WORKLOADS)) for b in range(len(WORKLOADS))]
    rng.shuffle(pairs)
    ncore = 45 if tier == "quick" else len(pairs)
    def weight(w):
        return sum(3 if op[0] in ("tree", "ntree") else 1 for op in WORKLOADS[w])
    ncore_done = 0
    nw = len(WORKLOADS)
    # nested context blocks in one thread against blocks at another depth in the other thread
    must = [(nw - 3, nw - 2), (nw - 1, nw - 2), (nw - 3, nw - 1), (nw - 3, 2), (nw - 1, 3)]
    for (a, b) in must:
        out.append(("core", dict(threads=[a, b], maxswitch=4, inside=0)))
    for (a, b) in pairs:
        # heavy pairs (many call-outs => many switch points) only run as long as the budget lasts
        light = weight(a) + weight(b) <= 9
        g = "core" if (light and ncore_done < ncore) else "ext"
        ncore_done += g == "core"
        out.append((g, dict(threads=[a, b], maxswitch=2, inside=1)))
    out.sort(key=lambda x: x[0] != "core")
    if tier == "thorough":
        for _ in range(150):
            out.append(("ext", dict(threads=[rng.randrange(len(WORKLOADS)) for _ in range(3)], maxswitch=3, inside=1)))
    return out


BOUNDS = dict(threads="2 (thorough: also 3)", workloads="%d workloads of 1..4 operations (context enter/exit, array checks incl. failing ones, structured PyTree checks with '?' axes over a custom node, decorated calls new/old/none, '?' misuse probe, observations)" % len(WORKLOADS),
              switches="<=2 (3 threads: 3) alternations between threads at operation boundaries, plus one switch *inside* an operation at any of its call-outs (.shape/.dtype access, custom flatten, leaf __instancecheck__), during which another thread's next operation runs to completion",
              shapes="all sizes unbounded solver variables")
STUBS = c01.STUBS + ["TickArr / Node: user-code stand-ins whose call-outs are the scheduler's switch points"]
ASSUMPTIONS = ["cooperative scheduler on real OS threads with real threading.local: switches only at operation boundaries and call-outs to user code (see module docstring)",
               "free-threaded (no-GIL) builds and pre-emption inside a single storage function are outside the model"]
REQUIRED_LABELS = {"verdict", "bindings", "qmark-misuse", "final-stateless"}
REQUIRED_WITNESS = {"switch-inside", "switch-between"}
BUDGET_S = {"quick": 70, "thorough": 1500}
setup_worker = c12.setup_worker
preflight = c01.preflight


class Worker:
    """One logical thread = one OS thread executing callables handed to it."""

    def __init__(self, name):
        self.q = queue.Queue()
        self.t = threading.Thread(target=self._loop, name=name, daemon=True)
        self.t.start()

    def _loop(self):
        while True:
            item = self.q.get()
            if item is None:
                return
            fn, box, done = item
            try:
                box["r"] = fn()
            except BaseException as e:  # noqa
                box["e"] = e
            done.set()

    def run(self, fn):
        box, done = {}, threading.Event()
        self.q.put((fn, box, done))
        done.wait()
        if "e" in box:
            raise box["e"]
        return box.get("r")

    def stop(self):
        self.q.put(None)


class Sched:
    def __init__(self, V, inst):
        self.V = V
        self.nthreads = len(inst["threads"])
        self.workers = [Worker(f"lt{i}") for i in range(self.nthreads)]
        self.progs = [list(WORKLOADS[w]) for w in inst["threads"]]
        self.pc = [0] * self.nthreads
        self.busy = [False] * self.nthreads
        self.nswitch = 0
        self.maxswitch = inst["maxswitch"]
        self.nchoice = 0
        self.depth = 0
        self.inside_left = inst.get("inside", 1)
        self.alternations = 0
        self.state = [ThreadRef(i) for i in range(self.nthreads)]
        self.current = None

    def runnable(self, exclude=None):
        return [i for i in range(self.nthreads) if i != exclude and not self.busy[i] and self.pc[i] < len(self.progs[i])]

    def run_next(self, i):
        op = self.progs[i][self.pc[i]]
        self.pc[i] += 1
        self.busy[i] = True
        prev = self.current
        self.current = i
        try:
            self.workers[i].run(lambda: exec_op(self, i, op))
        finally:
            self.busy[i] = False
            self.current = prev

    def switch_point(self, inside):
        """Called on the currently running logical thread at a call-out into user code.
        At most `inside_budget` times per run another thread's next operation is run to
        completion here (it is not itself interrupted)."""
        if not inside or self.depth > 0 or self.inside_left <= 0:
            return
        me = self.current
        cands = self.runnable(exclude=me)
        if not cands:
            return
        self.nchoice += 1
        k = self.V.choose(f"sw{self.nchoice}", len(cands) + 1)
        if k == 0:
            return
        self.inside_left -= 1
        self.nswitch += 1
        self.V.reach("switch-inside")
        self.depth += 1
        try:
            self.run_next(cands[k - 1])
        finally:
            self.depth -= 1

    def main(self):
        last = None
        while True:
            cands = self.runnable()
            if not cands:
                return
            if last in cands and self.alternations >= self.maxswitch:
                k = cands.index(last)           # alternation budget used up: stay on this thread
            elif len(cands) == 1:
                k = 0
            else:
                self.nchoice += 1
                k = self.V.choose(f"top{self.nchoice}", len(cands))
            if last is not None and cands[k] != last:
                self.alternations += 1
                self.nswitch += 1
                self.V.reach("switch-between")
            last = cands[k]
            self.run_next(last)

    def shutdown(self):
        # join: a thread that is still winding down would run z3 destructors concurrently with
        # the next solver call (ctypes releases the GIL), which is not safe
        for w in self.workers:
            w.stop()
        for w in self.workers:
            w.t.join(timeout=10)


class ThreadRef:
    """reference state of one thread running alone"""

    def __init__(self, i):
        self.i = i
        self.stack = []      # list of c05.Frame
        self.structs = []    # parallel: dict name -> structure signature
        self.exits = []      # ExitStack per entered context


_SCHED = [None]


def _tick_hook(site):
    s = _SCHED[0]
    if s is not None and s.current is not None:
        s.switch_point(inside=True)


def exec_op(s, i, op):
    import jaxtyping as jt
    from jaxtyping import jaxtyped, PyTree
    V = s.V
    ref = s.state[i]
    tag = f"t{i}o{s.pc[i]}"
    kind = op[0]
    top = ref.stack[-1] if ref.stack else None

    def check_array(dims, frame):
        pd = D.parse_ref(dims)
        shape = [V.int(f"{tag}s{j}", 0) for j in range(len(pd))]
        got = c01.observe_check(c12.TickArr(shape), jt.Float[c12.TickArr, dims])
        B = frame.B if frame is not None else D.Bindings()
        st = D.step(pd, [core.lift(x) for x in shape], B)
        V.check("verdict", D.verdict_allowed(st, got) if got in (0, 1, 2) else False, got=str(got), dims=dims,
                thread=i, op=tag)
        if got == D.ACC and frame is not None:
            frame.B = st["B"]

    if kind == "enter":
        es = contextlib.ExitStack()
        es.enter_context(jaxtyped("context"))
        ref.exits.append(es)
        ref.stack.append(c05.Frame())
    elif kind == "exit":
        if ref.exits:
            ref.exits.pop().close()
            ref.stack.pop()
    elif kind == "observe":
        impl = base.bindings()
        B = top.B if top is not None else D.Bindings()
        compare.check_bindings(V, "bindings", impl, B, thread=i, op=tag)
    elif kind == "check":
        check_array(op[1], top)
    elif kind in ("tree", "ntree"):
        _, dims, struct = op
        pd = D.parse_ref(dims)
        shapes = [[V.int(f"{tag}l{k}_{j}", 0) for j in range(len(pd))] for k in range(2)]
        tree = Node(c12.TickArr(shapes[0]), (c12.TickArr(shapes[1]),))
        leaf = jt.Float[c12.TickArr, dims]
        if kind == "ntree":
            ann = PyTree[PyTree[leaf], struct]
        else:
            ann = PyTree[leaf, struct] if struct else PyTree[leaf]
        got = c01.observe_check(tree, ann)
        B = top.B if top is not None else D.Bindings()
        # structure name: this family uses one skeleton, so a bound T always matches
        if top is None:
            # outside every context each array check is stateless: leaves do not constrain
            # one another (the '?' leaf position is still set by the structured PyTree)
            res, B2 = "ACC", B
            for li, sh in enumerate(shapes):
                st = D.step(pd, [core.lift(x) for x in sh], D.Bindings(), tp=(struct, 0 if kind == "ntree" else li) if struct else None)
                if not V.decide(st["strict"] == D.ACC):
                    res = "ERR" if V.decide(st["strict"] == D.ERR) else "REJ"
                    break
        elif kind == "ntree":
            # the inner structure-less PyTree matches the whole tree: one outer leaf (position 0)
            res, B2 = "ACC", B
            for sh in shapes:
                st = D.step(pd, [core.lift(x) for x in sh], B2, tp=(struct, 0))
                if V.decide(st["strict"] == D.ACC):
                    B2 = st["B"]
                else:
                    res, B2 = ("ERR" if V.decide(st["strict"] == D.ERR) else "REJ"), B
                    break
        else:
            res, B2 = T.leaves_step(V, pd, [[core.lift(x) for x in sh] for sh in shapes], struct, B)
        exp = {"ACC": D.ACC, "REJ": D.REJ, "ERR": D.ERR}[res]
        V.check("verdict", got == exp, got=str(got), expected=res, dims=dims, thread=i, op=tag)
        if got == D.ACC and res == "ACC" and top is not None:
            top.B = B2
    elif kind == "call":
        fn = c12.get_call_fn(op[1], c12.TickArr)
        shape = [V.int(f"{tag}s0", 0), V.int(f"{tag}s1", 0)]
        r = fnlib_call(fn, c12.TickArr(shape))
        V.check("verdict", r == "OK", got=r, thread=i, op=tag, what="well-typed decorated call")
    elif kind == "qmark":
        sh = [V.int(f"{tag}s0", 0)]
        got = c01.observe_check(c12.TickArr(sh), jt.Float[c12.TickArr, "?a"])
        V.check("qmark-misuse", got == D.ERR, got=str(got), thread=i, op=tag)
    else:
        raise AssertionError(op)


def fnlib_call(fn, x):
    from jaxtyping import AnnotationError, TypeCheckError
    try:
        fn(x)
        return "OK"
    except TypeCheckError:
        return "TCE"
    except AnnotationError:
        return "ERR"
    except (core.PathAbort, core.Unsupported, core.Nondeterminism, core.StopPath):
        raise
    except Exception as e:  # noqa
        return "EXC:" + type(e).__name__


def scenario(inst, V):
    s = Sched(V, inst)
    _SCHED[0] = s
    orig_tick = c12.tick

    def tick(site):
        orig_tick(site)
        _tick_hook(site)
    c12.tick = tick
    c12.FAULT["site"] = None
    try:
        s.main()
        # every thread closes what it opened, then must be stateless
        finals = []
        for i in range(s.nthreads):
            def fin(i=i):
                ref = s.state[i]
                while ref.exits:
                    ref.exits.pop().close()
                b = base.bindings()
                return not (b["single"] or b["variadic"] or b["pytree"])
            s.current = None
            finals.append(s.workers[i].run(fin))
        V.check("final-stateless", all(finals), finals=finals)
    finally:
        c12.tick = orig_tick
        _SCHED[0] = None
        s.shutdown()
    return dict(switches=s.nswitch)


def _key(inst, label, vals, info):
    return f"{label}|{inst['threads']!r}"


harness, concrete_run, replay, finding_key = base.make_api(scenario, _key)
