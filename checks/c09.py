"""C09 -- PyTree structure names bind, compose, prefix and suffix exactly as documented.

(a) Solver-decided part -- the structure *string*: the real _MetaPyTree.__getitem__ (strip,
    split, per-piece validation, '...' placement) runs on a symbolic string (characters are
    solver variables): accepted iff every piece is an identifier, except that the first or
    the last piece may be '...'; otherwise ValueError; never anything else.
(b) Bounded selector part (enumerative residue, stated plainly): triples of trees
    (t bound to T, s bound to S, candidate x) over a fixed family and the structure forms
    'T', 'S T', 'T ...', '... T', 'S T ...', '... S T'; the deciding computation is
    PyTreeDef equality / tree_map inside jaxlib (C++), which cannot be symbolic, so the
    solver only enumerates the selections; oracle = reference structure algebra in Python.
"""
import itertools
import random

from checks import base, c01, c08
from spec import trees as T
from symx import core, symstr as S

PROPERTY = "C09"
TITLE = "PyTree structure names bind, compose, prefix and suffix exactly as documented"

ALPHA = "ab1_.-, \t"
TREES = [1, (1,), (1, 2), [1, 2], (1, (2, 3)), {"a": 1, "b": 2}, {"a": (1, 2)}, ((1, 2), (3, 4)), [(1,), (2,)],
         (1, None), None, (), ((1,),), [[1, 2], [3, 4]], {"a": {"a": 1, "b": 2}, "b": {"a": 3, "b": 4}},
         ((1, (2, 3)), (4, (5, 6))), (1, 2, 3), [(1, 2), (3, 4), (5, 6)], ({"a": 1, "b": 2}, {"a": 3, "b": 4}),
         (None, 1), [1], {"a": 1}, ((1, 2),), (((1, 2), (3, 4)), ((5, 6), (7, 8))), ([1, 2], [3, 4]), "leaf", ("x", "y")]
FORMS = ["T", "S T", "T S", "T ...", "... T", "S T ...", "... S T", "T T", "... T T", " T", "T ", "  S   T ", "T ... "]
INT = ("py", "int")


def instances(tier, seed):
    rng = random.Random(seed)
    out = []
    nmax = 5 if tier == "quick" else 7
    for n in range(0, nmax + 1):
        if n <= 4:
            out.append(("core", dict(kind="string", n=n, prefix="")))
        else:
            for c in ALPHA:
                out.append(("core" if n <= 5 else "ext", dict(kind="string", n=n, prefix=c)))
    # '...' literal pieces with symbolic neighbours
    for pat in ("...@", "@...", "@...@", "...@...", "@ ... @", "... @ ..."):
        for k in (1, 2, 3):
            out.append(("core", dict(kind="dots", pat=pat, k=k)))
    cand = list(range(len(TREES) - 2))
    pairs = list(itertools.product(cand, repeat=2))
    rng.shuffle(pairs)
    npairs = 40 if tier == "quick" else 400
    leafless = [i for i, t in enumerate(TREES) if t in ((), None) or t == (None, 1)]
    empties = [TREES.index(())]
    forced = [(e, o) for e in empties for o in (2, 3, 5, 7)] + [(o, e) for e in empties for o in (2, 3, 5, 7)]
    withnone = [i for i, t in enumerate(TREES) if t in ((1, None), (None, 1))]
    forced += [(w, o) for w in withnone for o in (1, 2)] + [(2, w) for w in withnone]
    for ti, si in forced + pairs[:npairs]:
        for form in FORMS:
            out.append(("core", dict(kind="algebra", t=ti, s=si, form=form, bind_s=True)))
    out.append(("core", dict(kind="bindrollback")))
    out.append(("core", dict(kind="failedfirstuse")))
    for ti in cand[:8]:
        for form in ("S T", "T ...", "... S T"):
            out.append(("core", dict(kind="algebra", t=ti, s=0, form=form.replace("T", "U") if form == "T ..." else form, bind_s=False)))
    return out


BOUNDS = dict(string="(a) every structure string of length <=5 (thorough <=7 within budget) over the alphabet %r; plus literal '...' pieces with symbolic neighbours of 1..3 characters" % ALPHA,
              algebra="(b) %d trees (depth <=3 over tuples/lists/dicts/None, int and str leaves); seeded (t, s) pairs x %d structure forms x every candidate x of the family (x is a solver-branched selector)" % (len(TREES), len(FORMS)))
STUBS = ["SymStr (self-tested in C14's preflight)"]
ASSUMPTIONS = ["(b) is an enumeration over a finite family: PyTreeDef equality and tree_map run inside jaxlib (C++)",
               "a structure string with no identifier at all ('...' alone) is outside the documented forms: only totality is checked",
               "ASCII alphabet"]
REQUIRED_LABELS = {"string-total", "string-accepted", "string-rejected", "algebra-verdict", "unbound-raises"}
REQUIRED_WITNESS = {"built", "ValueError", "alg-ACC", "alg-REJ", "alg-ERR"}
BUDGET_S = {"quick": 150, "thorough": 1200}
setup_worker = c08.setup_worker


def build(struct):
    import jaxtyping as jt
    g = getattr(type(jt.PyTree), "__getitem__", None)
    if hasattr(g, "cache_clear"):
        g.cache_clear()
    try:
        with S.allow_identity_hash():
            ann = jt.PyTree[int, struct]
        return "built", ann
    except ValueError as e:
        return "ValueError", e
    except (core.PathAbort, core.Unsupported, core.Nondeterminism, core.StopPath):
        raise
    except Exception as e:  # noqa
        return "EXC:" + type(e).__name__, e


def ref_string(s):
    """'OK' | 'VE' | 'UNSPEC' for a structure string (str or SymStr)."""
    pieces = s.split()
    if len(pieces) == 0:
        return "VE"
    nid = 0
    for i, p in enumerate(pieces):
        if (i == 0 or i == len(pieces) - 1) and p == "...":
            continue
        if not p.isidentifier():
            return "VE"
        nid += 1
    if nid == 0:
        return "UNSPEC"
    if len(pieces) >= 2 and pieces[0] == "..." and pieces[-1] == "...":
        return "UNSPEC"  # both ends open: not one of the documented forms
    return "OK"


# ---- reference structure algebra on signatures -------------------------------------------
def compose(s, t):
    """replace every leaf of structure s by structure t"""
    if s == "*":
        return t
    if s[0] in ("dict", "namedtuple"):
        return s[:2] + tuple(compose(c, t) for c in s[2:])
    return s[:1] + tuple(compose(c, t) for c in s[1:])


def _children(sig):
    if sig == "*":
        return None
    k = sig[0]
    if k == "dict":
        return list(sig[2:])
    if k == "namedtuple":
        return list(sig[2:])
    return list(sig[1:])


def _tag(sig):
    k = sig[0]
    if k in ("dict", "namedtuple"):
        return sig[:2]
    return (k,)


def is_prefix(p, x):
    if p == "*":
        return True
    if x == "*":
        return False
    if _tag(p) != _tag(x) or len(_children(p)) != len(_children(x)):
        return False
    return all(is_prefix(a, b) for a, b in zip(_children(p), _children(x)))


def is_suffix(t, x):
    if x == t:
        return True
    if x == "*":
        return False
    return all(is_suffix(t, c) for c in _children(x))


def _sig(x):
    # leaves of PyTree[int, ...]: ints are leaves; strings are (non-int) opaque leaves
    if isinstance(x, (int, str)) and not isinstance(x, bool):
        return "*"
    if x is None:
        return ("None",)
    if isinstance(x, dict):
        return ("dict", tuple(sorted(x))) + tuple(_sig(x[k]) for k in sorted(x))
    if isinstance(x, (tuple, list)):
        return (type(x).__name__,) + tuple(_sig(c) for c in x)
    raise TypeError(x)


def all_int_leaves(x):
    import jax.tree_util as jtu
    return all(isinstance(l, int) for l in jtu.tree_leaves(x))


def scenario(inst, V):
    import jaxtyping as jt
    from jaxtyping import jaxtyped, PyTree
    kind = inst["kind"]
    if kind in ("string", "dots"):
        if kind == "string":
            n, prefix = inst["n"], inst["prefix"]
            rest = V.str("c", n - len(prefix), ALPHA) if n > len(prefix) else ""
            s = prefix + rest if prefix else rest
        else:
            items = []
            j = 0
            for ch in inst["pat"]:
                if ch == "@":
                    w = V.str(f"p{j}", inst["k"], "ab1_. ")
                    items += list(w.items) if isinstance(w, S.SymStr) else [ord(c) for c in w]
                    j += 1
                else:
                    items.append(ord(ch))
            s = S.make(items)
        outcome, ann = build(s)
        V.reach(outcome)
        V.check("string-total", outcome in ("built", "ValueError"), outcome=outcome)
        ref = ref_string(s)
        V.reach("ref-" + ref)
        if ref == "OK":
            V.check("string-accepted", outcome == "built", outcome=outcome)
        elif ref == "VE":
            V.check("string-rejected", outcome == "ValueError", outcome=outcome)
        return dict(outcome=outcome, ref=ref)
    if kind == "failedfirstuse":
        # a check that fails on a leaf *after* the name was provisionally bound is not a first use
        bad = [("x", "y"), [1, "s"], {"k": "v"}][V.choose("bad", 3)]
        with jaxtyped("context"):
            g1 = c08.observe(bad, PyTree[int, "T"])
            g2 = c08.observe((1, 2, 3), PyTree[int, "T"])
            g3 = c08.observe((4, 5, 6), PyTree[int, "T"])
            g4 = c08.observe((4, 5), PyTree[int, "T"])
        V.check("algebra-verdict", (g1, g2, g3, g4) == ("REJ", "ACC", "ACC", "REJ"), got=(g1, g2, g3, g4),
                what="a rejected tree does not bind the structure name")
        return dict(got=[g1, g2, g3, g4])
    if kind == "bindrollback":
        # T must stay bound when a rollback happens *inside* the check that binds it
        # (inner union member failing after partial progress)
        from typing import Union
        from env.fakes import FakeArr
        k = V.choose("inner", 2)
        leaf = Union[jt.Float[FakeArr, "a 1"], jt.Float[FakeArr, "a 2"]]
        ann = PyTree[PyTree[leaf], "T"] if k else PyTree[leaf, "T"]
        x = FakeArr((3, 2))
        with jaxtyped("context"):
            g1 = c08.observe((x,), ann)
            bound = sorted(base.bindings()["pytree"])
            g2 = c08.observe((x, x), ann)
            g3 = c08.observe((x,), ann)
        # with the nested form the whole tree is one leaf of the outer PyTree (structure '*')
        want = ("ACC", "ACC", "ACC") if k else ("ACC", "REJ", "ACC")
        V.check("algebra-verdict", (g1, g2, g3) == want and bound == ["T"], got=(g1, g2, g3), bound=bound,
                what="structure name bound on first use survives an inner rollback")
        return dict(got=[g1, g2, g3], bound=bound)
    # ---- algebra
    t, s_ = TREES[inst["t"]], TREES[inst["s"]]
    form = inst["form"]
    xi = V.choose("x", len(TREES))
    x = TREES[xi]
    with jaxtyped("context"):
        if t is not None:
            if not isinstance(t, PyTree[int, "T"]):
                raise core.PathAbort("t not accepted")
        if inst["bind_s"] and s_ is not None:
            if not isinstance(s_, PyTree[int, "S"]):
                raise core.PathAbort("s not accepted")
        got = c08.observe(x, PyTree[int, form])
    # reference
    bound = {}
    if t is not None:
        bound["T"] = _sig(t)
    if inst["bind_s"] and s_ is not None:
        bound["S"] = _sig(s_)
    pieces = form.split()
    pre = pieces[-1] == "..."
    suf = pieces[0] == "..."
    names = [p for p in pieces if p != "..."]
    if x is None:
        exp = "ACC"   # a top-level None is always accepted
    elif len(names) == 1 and not pre and not suf:
        n = names[0]
        if not all_int_leaves(x):
            exp = "REJ"
        elif n in bound:
            exp = "ACC" if _sig(x) == bound[n] else "REJ"
        else:
            exp = "ACC"  # first use binds
    elif any(n not in bound for n in names):
        exp = "ERR"
        V.check("unbound-raises", got == "ERR", got=got, form=form)
        V.reach("alg-" + got)
        return dict(x=xi, got=got, exp=exp)
    else:
        named = "*"
        for n in names:
            named = compose(named, bound[n])
        sx = _sig(x)
        if pre:
            ok = is_prefix(named, sx)
        elif suf:
            ok = is_suffix(named, sx)
        else:
            ok = sx == named
        exp = "ACC" if (ok and all_int_leaves(x)) else "REJ"
    V.reach("alg-" + got)
    V.check("algebra-verdict", got == exp, got=got, expected=exp, x=repr(x), t=repr(t), s=repr(s_), form=form)
    return dict(x=xi, got=got, exp=exp)


def _key(inst, label, vals, info):
    return f"{label}|{sorted((k, repr(v)) for k, v in inst.items())!r}|x={vals.get('x')}"


harness, concrete_run, replay, finding_key = base.make_api(scenario, _key)
