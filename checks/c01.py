"""C01 -- an array check decides shape exactly as the dim-string language says.

Real code executed symbolically: `isinstance(arr, Dtype[ArrayType, dims])` inside
`jaxtyped("context")` (or a `jaxtyped(typechecker=None)` function for `{n}` axes), i.e.
_MetaAbstractArray.__instancecheck__/__instancecheck_str__/_check_shape, _check_dims,
get/set_shape_memo, push/pop_shape_memo, _make_array_cached (concrete strings).
Symbolic: every axis size (unbounded, >= 0), every size bound by the prior accepted checks,
the `{n}` argument; selectors (solver-branched): rank of every array.
Oracle: spec.dims.step (one merged formula per check).
"""
import itertools
import random

import z3

from checks import base
from env import broadcast
from env.fakes import FakeArr, FakeArr2, NoDtype, NoShape, SubArr
from spec import compare, dims as D

PROPERTY = "C01"
TITLE = "An array check decides shape exactly as the dim-string language says"

SINGLE = ["_", "3", "1", "a", "b", "#a", "#b", "#3", "#1", "a+1", "#a+1", "a-b", "2*a", "a//2",
          "b%3", "{n}+1", "#{n}", "a*b", "n+2"]
MULTI = ["*v", "*#v", "...", "*_"]
TOKENS = SINGLE + MULTI

PRIORS = [
    [], ["a"], ["a b"], ["#a #b"], ["*v"], ["*#v"], ["a *v"], ["*#v b"], ["*v", "*#v"],
    ["*#v", "*#v"], ["a b", "*#v"], ["#a", "*v a"], ["b", "*#v"], ["*#v", "*v"],
]


def n_multi(toks):
    return sum(t in MULTI for t in toks)


def uses(toks, ch):
    return any(ch in t.replace("{n}", "") for t in toks)


def relevant_priors(toks):
    out = []
    for p in PRIORS:
        pj = " ".join(p)
        if not p:
            out.append(p)
            continue
        # a prior is relevant when it binds a name the probe mentions
        names = {c for c in "abv" if c in pj}
        if any(uses(toks, c) for c in names):
            out.append(p)
    return out


def mk(toks, prior, maxrank, **kw):
    d = dict(dims=" ".join(toks), prior=list(prior), maxrank=maxrank, dtype="in", atype="inst")
    d.update(kw)
    return d


def instances(tier, seed):
    rng = random.Random(seed)
    maxrank = 4 if tier == "quick" else 5
    out = []
    # --- type / dtype gate (independent of the shape logic): small cross product
    for dims in ["", "a", "... a"]:
        for dt in ("in", "out", "any"):
            for at in ("inst", "sub", "other", "any_ok", "any_noshape", "any_nodtype"):
                out.append(("core", mk(dims.split(), [], 2, dtype=dt, atype=at)))
    # --- 0/1-token strings x all relevant priors
    out.append(("core", mk([], [], maxrank)))
    for t in TOKENS:
        for p in relevant_priors([t]):
            out.append(("core", mk([t], p, maxrank)))
    # --- inductive-step lemma: ONE axis token (and one token next to a multi-axis one) from an
    # *arbitrary* memo over {a, b, v}: whether a / b are bound is solver-chosen ('#a #b' binds a
    # name iff its size is not 1), v is bound with either broadcast flag and symbolic rank 0..3
    for arb in (["#a #b", "*#v"], ["#a #b", "*v"], ["#a #b"]):
        for t in TOKENS:
            out.append(("core", mk([t], arb, maxrank)))
        for t in SINGLE:
            for m in ("*v", "*#v"):
                out.append(("core" if tier == "thorough" else "ext", mk([t, m], arb, maxrank)))
                out.append(("core" if tier == "thorough" else "ext", mk([m, t], arb, maxrank)))
    # --- a symbolic axis on one side of the multi-axis specifier naming an axis bound on the other
    for toks in (["a", "*v", "a+1"], ["a+1", "*v", "a"], ["a+1", "...", "a"], ["a", "...", "2*a"], ["b", "a", "*#v", "a-b"],
                 ["a-b", "*v", "b", "a"], ["#a", "*v", "a+1"]):
        for p in ([], ["*v"], ["a"]):
            out.append(("core", mk(toks, p, maxrank)))
    # --- 2-token strings x (no prior, one rich prior)
    two = [x for x in itertools.product(TOKENS, repeat=2) if n_multi(x) <= 1]
    for toks in two:
        ps = relevant_priors(toks)
        picks = [ps[0]]
        if len(ps) > 1:
            picks.append(ps[1 + rng.randrange(len(ps) - 1)])
        for p in picks:
            out.append(("core" if (tier == "thorough" or not p or rng.random() < 0.35) else "ext",
                        mk(toks, p, maxrank)))
    # --- longer strings: seeded sample
    n3 = 500 if tier == "quick" else 4000
    n4 = 150 if tier == "quick" else 3000
    n5 = 0 if tier == "quick" else 600
    for n, cnt in ((3, n3), (4, n4), (5, n5)):
        seen = set()
        while len(seen) < cnt:
            toks = tuple(rng.choice(TOKENS) for _ in range(n))
            if n_multi(toks) > 1 or toks in seen:
                continue
            seen.add(toks)
            ps = relevant_priors(toks)
            out.append(("ext", mk(toks, rng.choice(ps), maxrank)))
    rng.shuffle(out)
    out.sort(key=lambda x: x[0] != "core")
    return out


BOUNDS = {
    "quick": dict(rank="0..4 (selector)", sizes="unbounded >= 0 (solver variables)",
                  dim_strings="all <=2-token strings over %d tokens, seeded sample of 3/4-token strings" % len(TOKENS),
                  prior="0..2 prior accepted checks from a fixed menu, own symbolic shapes of rank <=3",
                  inductive_step="every single token from an arbitrary memo over {a,b,v} (bound-ness of a and b solver-chosen, v with either flag and rank 0..3)",
                  nonlinear="sizes <= 6 when the string contains a*b"),
    "thorough": dict(rank="0..5 (selector)", sizes="unbounded >= 0 (solver variables)",
                     dim_strings="all <=2-token strings, seeded sample of 3/4/5-token strings",
                     prior="0..2 prior accepted checks from a fixed menu, own symbolic shapes of rank <=3",
                     nonlinear="sizes <= 6 when the string contains a*b"),
}
STUBS = ["numpy.broadcast_shapes -> env.broadcast.broadcast_shapes (validated against numpy at start of run)",
         "arrays -> env.fakes.FakeArr (shape tuple of SymInt, dtype string); replays use numpy arrays"]
ASSUMPTIONS = [
    "symbolic axes restricted to + - * // % over names, literals and one {n} argument",
    "an expression that itself raises (division by zero) is outside the statement",
    "ERR-vs-REJ leniency of DESIGN.md Appendix A",
    "dim strings are parsed by the real parser on concrete strings here; symbolic strings are C14",
]
REQUIRED_LABELS = {"verdict", "post-bindings"}
REQUIRED_WITNESS = {"ACC", "REJ", "ERR", "broadcast-stub"}
BUDGET_S = {"quick": 150, "thorough": 1500}


def setup_worker():
    broadcast.install()


def preflight(tier):
    from symx import selftest
    n = broadcast.selftest()
    m = selftest.arithmetic_grid()
    k = selftest.toy_paths()
    return [f"broadcast stub == numpy.broadcast_shapes on {n} shape pairs (rank<=3, sizes 0..3)",
            f"SymInt arithmetic == Python int on {m} (operator, operand pair) cases incl. negative floor division / modulo",
            f"toy harness explored its {k} known paths"]


def build_annotation(inst, V):
    import jaxtyping as jt
    from typing import Any
    cat = {"in": jt.Float, "out": jt.Int, "any": jt.Shaped}[inst["dtype"]]
    at = inst["atype"]
    arrtype = Any if at.startswith("any") else (V.ARR if at == "inst" else FakeArr)
    return cat[arrtype, inst["dims"]]


def make_value(inst, V, shape):
    at = inst["atype"]
    if at in ("inst", "any_ok"):
        return V.arr(shape, "float32")
    if at == "sub" and V.concrete:
        return SubArr(tuple(shape), "float32")
    if at == "sub":
        return SubArr(tuple(shape), "float32")
    if at == "other":
        return FakeArr2(tuple(shape), "float32")
    if at == "any_noshape":
        return NoShape()
    if at == "any_nodtype":
        return NoDtype()
    raise AssertionError(at)


def gate_rejects(inst):
    """Does the type/dtype gate (which precedes any shape logic) reject?"""
    at, dt = inst["atype"], inst["dtype"]
    if at in ("other", "any_noshape", "any_nodtype"):
        return True
    return dt == "out"


def observe_check(value, ann):
    from jaxtyping import AnnotationError
    try:
        r = isinstance(value, ann)
        return D.ACC if r else D.REJ
    except AnnotationError:
        return D.ERR
    except (base.core.PathAbort, base.core.Unsupported, base.core.Nondeterminism):
        raise
    except Exception as e:  # noqa
        return "EXC:" + type(e).__name__


def run_priors(inst, V, args):
    """Run the prior accepted checks; returns oracle state B after them."""
    import jaxtyping as jt
    B = D.Bindings()
    for k, pd in enumerate(inst["prior"]):
        pdims = D.parse_ref(pd)
        pr = V.choose(f"pr{k}", min(3, len(pdims) + 1) + 1)
        pshape = [V.int(f"p{k}_{i}", 0) for i in range(pr)]
        got = observe_check(V.arr(pshape), jt.Float[V.ARR, pd])
        st = D.step(pdims, [base.core.lift(s) for s in pshape], B, args)
        V.check("prior-verdict", D.verdict_allowed(st, got) if got in (0, 1, 2) else False,
                prior=pd, got=str(got))
        if got != D.ACC:
            raise base.core.PathAbort("prior check not accepted")
        B = st["B"]
    return B


def scenario(inst, V, mode="C01"):
    from jaxtyping import jaxtyped
    ann = build_annotation(inst, V)
    rdims = D.parse_ref(inst["dims"])
    nonlinear = "a*b" in inst["dims"]
    hi = 6 if nonlinear else None
    out = {}

    def body(args):
        B = run_priors(inst, V, args)
        pre = base.bindings()
        rank = V.choose("rank", inst["maxrank"] + 1)
        shape = [V.int(f"s{i}", 0, hi) for i in range(rank)]
        if nonlinear:
            for k, (p, v) in B.single.items():
                V.assume(z3.Implies(p, z3.And(v >= 0, v <= 6)))
        value = make_value(inst, V, shape)
        n0 = broadcast.NpProxy.calls
        got = observe_check(value, ann)
        post = base.bindings()
        if broadcast.NpProxy.calls > n0:
            V.reach("broadcast-stub")
        if gate_rejects(inst):
            V.check("verdict", got == D.REJ, got=str(got), why="type/dtype gate must reject")
            st = None
        else:
            st = D.step(rdims, [base.core.lift(s) for s in shape], B, args)
            if got in (D.ACC, D.REJ, D.ERR):
                V.check("verdict", D.verdict_allowed(st, got), got=D.VERDICT[got])
            else:
                V.check("verdict", False, got=str(got), why="unexpected exception class")
        if got in (D.ACC, D.REJ, D.ERR):
            V.reach(D.VERDICT[got])
        if got == D.ACC and st is not None:
            compare.check_bindings(V, "post-bindings", post, st["B"])
        if mode == "C04":
            out["extra"] = (pre, post, got, value, st, B)
        out["obs"] = dict(verdict=got if not isinstance(got, int) else D.VERDICT[got],
                          single=post["single"], variadic=post["variadic"])

    # "n+2" names the *argument* n as if it were an axis: arguments are only visible inside
    # {...}, so this is an unbound axis name (AnnotationError), whatever the argument's value
    if "{n}" in inst["dims"] or "n+2" in inst["dims"]:
        @jaxtyped(typechecker=None)
        def f(n, run):
            run({"n": base.core.lift(n)})
        f(V.int("n", -3), body)
    else:
        with jaxtyped("context"):
            body({})
    return out["obs"]


def _key(inst, label, vals, info):
    return f"{label}|dims={inst['dims']!r}|prior={inst['prior']!r}|{inst['dtype']}/{inst['atype']}"


harness, concrete_run, replay, finding_key = base.make_api(scenario, _key)
