#!/usr/bin/env python3
"""Collects tools/matrix*.sh results (seeded/MATRIX*.txt) into seeded/README.md and the
`detected_by` / `not_detected_by` fields of every seeded/<id>/meta.json."""
import glob, json, os, re
HERE = os.path.dirname(os.path.dirname(os.path.abspath(__file__)))
res = {}
def _order(f):
    m = re.search(r"MATRIX(\d*)", os.path.basename(f))
    return (0 if "BENIGN" in f else 1, int(m.group(1) or 0))


for f in sorted(glob.glob(os.path.join(HERE, "seeded", "MATRIX*.txt")), key=_order):
    for line in open(f):
        m = re.match(r"^([mrb]\d+\w*) (C\d+) rc=(\d+)", line)
        if m:
            res.setdefault(m.group(1), {})[m.group(2)] = int(m.group(3))   # later files override
rows = []
for d in sorted(glob.glob(os.path.join(HERE, "seeded", "*", "meta.json"))):
    meta = json.load(open(d))
    sid = meta["id"]
    r = res.get(sid, {})
    meta["detected_by"] = sorted(c for c, rc in r.items() if rc == 1)
    meta["not_detected_by"] = sorted(c for c, rc in r.items() if rc == 0)
    meta["inconclusive"] = sorted(c for c, rc in r.items() if rc == 2)
    json.dump(meta, open(d, "w"), indent=1)
    needs = (meta.get("needs") or "").strip().replace("\n", " ")
    first = re.split(r"(?<=[.!?])\s", needs)[0][:160] if needs else ""
    rows.append((sid, meta.get("property", ""), ", ".join(meta["detected_by"]) or "-", ", ".join(meta["not_detected_by"]) or "", first))
with open(os.path.join(HERE, "seeded", "README.md"), "w") as f:
    f.write("# Seeded changes (quick tier, scratch copies via VERIF_REPO)\n\n")
    f.write("`caught by` = checks that exited 1 with a replayed VIOLATION; `also run, silent` = other checks tried that stayed at exit 0.\n\n")
    f.write("| seed | property | caught by | also run, silent | summary |\n|---|---|---|---|---|\n")
    for r in rows:
        f.write("| " + " | ".join(x.replace("|", "/") for x in r) + " |\n")
own = [(r[0], r[1], r[2]) for r in rows]
missed = [r for r in own if r[2] == "-" and not r[0].startswith("b")]
alarms = [r for r in own if r[0].startswith("b") and r[2] != "-"]
print("benign refactorings that raised an alarm:", [a[0] for a in alarms])
print(len(rows), "seeds;", len(missed), "not caught by any check run:", [m[0] for m in missed])
