#!/bin/sh
# usage: keep_mutant.sh <worktree> <seed-id> <property>
# Confirms a seeded change (tests still pass, demo fails with / passes without), stores it
# under /verif/seeded/<seed-id>/ and removes the worktree.
set -u
WT=$1; ID=$2; PROP=$3
OUT=/verif/seeded/$ID
cd "$WT" || exit 2
git diff -- jaxtyping > /tmp/$ID.patch
[ -s /tmp/$ID.patch ] || { echo "$ID: empty diff"; exit 2; }
/venv/bin/python -m pytest -q -p no:cacheprovider --timeout=900 -x --deselect test/test_decorator.py::test_mlx --deselect "test/test_generators.py::test_generators_return_no_annotations[False-beartype]" --deselect "test/test_generators.py::test_generators_simple[False-beartype]" > /tmp/$ID.pytest 2>&1
TESTS=$(tail -1 /tmp/$ID.pytest)
/venv/bin/python demo.py > /tmp/$ID.demo_with 2>&1; RC_WITH=$?
git apply -R /tmp/$ID.patch
/venv/bin/python demo.py > /tmp/$ID.demo_without 2>&1; RC_WITHOUT=$?
git apply /tmp/$ID.patch
echo "$ID tests: $TESTS | demo with change rc=$RC_WITH, without rc=$RC_WITHOUT"
case "$TESTS" in *failed*|*error*) echo "$ID: TESTS FAIL -> not kept"; exit 1;; esac
[ $RC_WITH -ne 0 ] && [ $RC_WITHOUT -eq 0 ] || { echo "$ID: demo does not discriminate -> not kept"; exit 1; }
mkdir -p $OUT
cp /tmp/$ID.patch $OUT/patch.diff
cp demo.py $OUT/demo.py
[ -f notes.md ] && cp notes.md $OUT/notes.md
python3 - <<PY
import json
json.dump(dict(id="$ID", property="$PROP", breaks="$PROP",
  needs=open("$WT/notes.md").read() if __import__("os").path.exists("$WT/notes.md") else "",
  confirmed=dict(pytest="""$TESTS""", demo_rc_with_change=$RC_WITH, demo_rc_without_change=$RC_WITHOUT,
     how="tools/keep_mutant.sh: ran the pinned suite (minus the 6 always-failing tests) in the scratch worktree with the change applied; ran demo.py with the change and with the change stashed"),
  detected_by=[]), open("$OUT/meta.json","w"), indent=1)
PY
cd / && git -C /repo worktree remove --force "$WT" && echo "$ID kept, worktree removed"
