#!/bin/sh
# usage: try_mutant.sh <seed-id> <tier> <check ids...>   applies seeded/<id>/patch.diff to /repo, runs checks, reverts
ID=$1; TIER=$2; shift 2
cd /verif
git -C /repo diff --quiet || { echo "/repo not clean"; exit 2; }
git -C /repo apply /verif/seeded/$ID/patch.diff || exit 2
trap 'git -C /repo checkout -- .' EXIT INT TERM
for c in "$@"; do
  ./check $c --tier $TIER > /tmp/try_${ID}_$c.log 2>&1; rc=$?
  echo "$ID $c rc=$rc  $(grep -c '^VIOLATION' /tmp/try_${ID}_$c.log) violation lines; $(grep -E '^(INCONCLUSIVE|KNOWN)' /tmp/try_${ID}_$c.log | head -2)"
done
