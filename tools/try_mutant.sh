#!/bin/sh
# usage: try_mutant.sh <seed-id> <tier> <check ids...>
# Runs checks against a scratch copy of /repo with seeded/<id>/patch.diff applied (VERIF_REPO),
# so /repo itself stays untouched; the copy is removed afterwards.
ID=$1; TIER=$2; shift 2
S=/tmp/mut_$ID
rm -rf $S; mkdir -p $S
git -C /repo archive HEAD | tar -x -C $S
(cd $S && git init -q . && git apply /verif/seeded/$ID/patch.diff) || { echo "$ID: patch does not apply"; rm -rf $S; exit 2; }
cd /verif
for c in "$@"; do
  VERIF_REPO=$S VERIF_EVIDENCE_DIR=/tmp/mut_ev_$ID ./check $c --tier $TIER > /tmp/try_${ID}_$c.log 2>&1; rc=$?
  echo "$ID $c rc=$rc  $(grep -c '^VIOLATION' /tmp/try_${ID}_$c.log) violation lines; $(grep -E '^(INCONCLUSIVE|KNOWN)' /tmp/try_${ID}_$c.log | head -2 | cut -c1-300)"
done
rm -rf $S /tmp/mut_ev_$ID
