#!/bin/sh
# Runs every seeded change against the checks named in its row; appends to /verif/seeded/MATRIX.txt
cd /verif
OUT=/verif/seeded/MATRIX.txt
: > $OUT
while read id checks; do
  [ -z "$id" ] && continue
  VERIF_JOBS=${VERIF_JOBS:-12} tools/try_mutant.sh $id quick $checks >> $OUT 2>&1
done <<ROWS
m01_c01_variadic_flag C01 C02
m02_c02_variadic_newshape C01 C02 C04
m03_c05_pop_not_finally C05 C12
m04_c04_pytree_raise_no_rollback C04 C12 C08
m05_c13_merged_axis_memo C13
m06_c03_dtype_cache C03
m07_c09_suffix_leafcount C09
m08_c08_variadic_not_rolled_back C08 C04
m09_c07_ret0_kwarg C07
m10_c06_shared_scratch_memo C06
m11_c14_index_variadic_falsy C14
m12_c12_treeflatten_ctxmgr C12
m13_c11_shared_instrument_cache C11
m14_c15_nested_variadic_falsy C15 C14
m15_c10_empty_docstring C10
m16_c16_treepath_not_cleared_on_raise C16 C12
m17_c17_args_visible_in_symbolic C17 C01
m18_c18_patch_not_restored C18
m19_c19_skip_instrument_when_disabled C19
m20_c20_nested_empty_dimstr C20 C15
r01_revert_fix_set_shape_memo C13 C08
r02_revert_fix_nonstring_spec C14
r03_revert_fix_baseexception_rollback C12
r04_revert_fix_nested_pytree_flags C08 C16
r05_revert_fix_cache_patch_scope C18
r06_revert_fix_pickle_nested_dtypes C20
r07_revert_fix_sentinels C20
ROWS
echo MATRIX-DONE >> $OUT
