#!/bin/sh
# usage: matrix2.sh <rows-file> <out-file>   rows: "<seed-id> <check> <check> ..."
cd /verif
OUT=$2
: > $OUT
while read id checks; do
  [ -z "$id" ] && continue
  VERIF_JOBS=${VERIF_JOBS:-12} tools/try_mutant.sh $id quick $checks >> $OUT 2>&1
done < $1
echo MATRIX-DONE >> $OUT
