#!/bin/sh
# usage: keep_mutant2.sh <worktree> <A|B> <seed-id> <property>
# For worktrees holding two candidate changes (mutantA.diff / demoA.py, mutantB.diff / demoB.py).
set -u
WT=$1; AB=$2; ID=$3; PROP=$4
OUT=/verif/seeded/$ID
cd "$WT" || exit 2
git checkout -q -- jaxtyping
git apply mutant$AB.diff || { echo "$ID: diff does not apply"; exit 2; }
git diff -- jaxtyping > /tmp/$ID.patch
/venv/bin/python -m pytest -q -p no:cacheprovider --timeout=900 -x --deselect test/test_decorator.py::test_mlx --deselect "test/test_generators.py::test_generators_return_no_annotations[False-beartype]" --deselect "test/test_generators.py::test_generators_simple[False-beartype]" > /tmp/$ID.pytest 2>&1
TESTS=$(tail -1 /tmp/$ID.pytest)
/venv/bin/python demo$AB.py > /tmp/$ID.demo_with 2>&1; RC_WITH=$?
git apply -R /tmp/$ID.patch
/venv/bin/python demo$AB.py > /tmp/$ID.demo_without 2>&1; RC_WITHOUT=$?
echo "$ID tests: $TESTS | demo with change rc=$RC_WITH, without rc=$RC_WITHOUT"
case "$TESTS" in *failed*|*error*) echo "$ID: TESTS FAIL -> not kept"; exit 1;; esac
[ $RC_WITH -ne 0 ] && [ $RC_WITHOUT -eq 0 ] || { echo "$ID: demo does not discriminate -> not kept"; exit 1; }
mkdir -p $OUT
cp /tmp/$ID.patch $OUT/patch.diff
cp demo$AB.py $OUT/demo.py
[ -f notes$AB.md ] && cp notes$AB.md $OUT/notes.md
python3 - <<PY
import json, os
n = "$WT/notes$AB.md"
json.dump(dict(id="$ID", property="$PROP", breaks="$PROP", needs=open(n).read() if os.path.exists(n) else "",
  confirmed=dict(pytest="""$TESTS""", demo_rc_with_change=$RC_WITH, demo_rc_without_change=$RC_WITHOUT,
     how="tools/keep_mutant2.sh: pinned suite (minus the 6 always-failing tests) in the scratch worktree with the change applied; demo with the change and with it reverse-applied"),
  detected_by=[]), open("$OUT/meta.json","w"), indent=1)
PY
echo "$ID kept"
