import asyncio, inspect, numpy as np
import typeguard, beartype
from jaxtyping import Float, jaxtyped, print_bindings, TypeCheckError
A=np.ndarray
for tc in (typeguard.typechecked, beartype.beartype):
    @jaxtyped(typechecker=tc)
    async def f(x: Float[A, "a"]) -> Float[A, "a"]:
        return x
    try:
        c = f(np.zeros(3)); print(tc.__name__, "coroutine?", inspect.iscoroutine(c), "iscoroutinefunction(wrapper)?", inspect.iscoroutinefunction(f))
        print("  result", asyncio.run(c).shape)
    except Exception as e:
        print(tc.__name__, "async FAIL", type(e).__name__, str(e)[:150].replace("\n"," "))
    @jaxtyped(typechecker=tc)
    def g(x: Float[A, "a"]):
        yield x
    try:
        print(tc.__name__, "gen", list(g(np.zeros(3)))[0].shape)
    except Exception as e:
        print(tc.__name__, "gen FAIL", type(e).__name__, str(e)[:100])
# context exit by exception
try:
    with jaxtyped("context"):
        isinstance(np.zeros(3), Float[A,"q"])
        raise KeyboardInterrupt
except KeyboardInterrupt: pass
print("after ctx exc, top-level bindings:"); print_bindings()
# BaseException inside check
class Arr:
    dtype="float32"; n=0
    @property
    def shape(self):
        Arr.n += 1
        if Arr.n == 4: raise KeyboardInterrupt
        return (3,4)
with jaxtyped("context"):
    try: isinstance(Arr(), Float[Arr, "p q"])
    except KeyboardInterrupt: print("KI propagated")
    print("bindings after KI inside check:"); print_bindings()
Arr.n = 0
class Arr2(Arr):
    @property
    def shape(self):
        Arr.n += 1
        if Arr.n == 4: raise RuntimeError
        return (3,4)
with jaxtyped("context"):
    try: isinstance(Arr2(), Float[Arr2, "p q"])
    except RuntimeError: print("RE propagated")
    print("bindings after RuntimeError inside check:"); print_bindings()
