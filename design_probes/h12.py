import sys, io, contextlib, re, z3
import os; sys.path.insert(0, os.path.join(os.path.dirname(os.path.abspath(__file__)), "regmod"))
import symx_reg, symx
from symx import SymInt, SymBool, sym_int, sym_bool, choose, explore
# token formatting
def _tok(self, spec=""):
    k = id(self.e); symx_reg.G[k] = self
    return f"__import__('symx_reg').G[{k}]"
SymInt.__format__ = _tok; SymInt.__repr__ = lambda s: _tok(s); SymInt.__str__ = lambda s: _tok(s)
TOK = re.compile(r"__import__\('symx_reg'\)\.G\[(\d+)\]")
from jaxtyping import Float, Shaped, jaxtyped, print_bindings, AnnotationError
from h4 import FakeArray

def bindings():
    buf = io.StringIO()
    with contextlib.redirect_stdout(buf): print_bindings()
    out = {}
    for line in buf.getvalue().splitlines():
        if "=" in line and not line.startswith("The current"):
            n, v = line.split("=", 1)
            m = TOK.fullmatch(v)
            out[n] = symx_reg.G[int(m.group(1))] if m else eval(v, {"__import__": __import__})
    return out

@jaxtyped(typechecker=None)
def f(n, x):
    r = isinstance(x, Float[FakeArray, "{n}+1 a *v"])
    return r, bindings()

def harness():
    n = sym_int("n"); rank = choose("rank", 4)
    shape = tuple(sym_int(f"s{i}", 0) for i in range(rank))
    r, b = f(n, FakeArray(shape))
    obl = []
    if rank >= 2:
        obl.append(("verdict", SymBool(shape[0].e == n.e + 1) == r))
        if r:
            obl.append(("a", b["a"] == shape[1]))
            obl.append(("v len", len(b["v"]) == rank - 2))
            for i, t in enumerate(b["v"]): obl.append(("v elt", t == shape[2 + i]))
        else:
            obl.append(("empty", b == {}))
    else:
        obl.append(("rank", r is False))
    return obl
print(explore(harness))
