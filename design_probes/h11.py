import importlib._bootstrap_external as be, types
from importlib.machinery import SourceFileLoader, ModuleSpec
from unittest.mock import patch
from jaxtyping import _import_hook as ih

log = []
def lookup(modname, path):
    # importlib contract: SourceFileLoader.get_code consults the *module-global* cache_from_source
    log.append((modname, be.cache_from_source(path)))

class PF:  # stub original path finder
    @staticmethod
    def find_spec(fullname, path=None, target=None):
        return ModuleSpec(fullname, SourceFileLoader(fullname, f"/x/{fullname}.py"))

tc = ih.Typechecker("typeguard.typechecked")
finder = ih._JaxtypingFinder(["hooked"], PF, tc)

def import_(fullname):
    spec = finder.find_spec(fullname) or PF.find_spec(fullname)
    spec.loader.exec_module(types.ModuleType(fullname))

def stub_exec_module(self, module):
    lookup(self.name, self.path)         # get_code of this module
    for nested in getattr(stub_exec_module, "nested", {}).get(self.name, []):
        import_(nested)                   # body executes nested imports

stub_exec_module.nested = {"hooked": ["plain"]}
with patch.object(SourceFileLoader, "exec_module", stub_exec_module):
    import_("hooked")
for l in log: print(l)
