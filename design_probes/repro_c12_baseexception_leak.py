import numpy as np
from jaxtyping import Float, jaxtyped, print_bindings
def mk(exc, at):
    class Arr:
        dtype="float32"; n=0
        @property
        def shape(self):
            Arr.n += 1
            if Arr.n == at: raise exc
            return (3,4,5)
    return Arr
for exc in (RuntimeError, KeyboardInterrupt):
    for at in (3,4):
        Arr = mk(exc, at)
        with jaxtyped("context"):
            try: isinstance(Arr(), Float[Arr, "p *v q"])
            except BaseException as e: print(type(e).__name__, "propagated at access", at)
            print("  bindings after:", end=" "); print_bindings()
