import numpy as np, warnings
import jaxtyping
from jaxtyping import Float, jaxtyped, TypeCheckError, print_bindings
import typeguard, beartype
for tc in (typeguard.typechecked, beartype.beartype):
    @jaxtyped(typechecker=tc)
    def g(x: Float[np.ndarray, "a b"], y: Float[np.ndarray, "c a"], z: Float[np.ndarray, "d"]):
        pass
    try:
        g(np.zeros((2,3)), np.zeros((7,5)), np.zeros(4))
    except TypeCheckError as e:
        print(str(e)[-400:])
    print("-----")
# lambda
try:
    f = jaxtyped(typechecker=typeguard.typechecked)(lambda x: x)
    print("lambda ok", f(1))
except BaseException as e:
    print("lambda fail", type(e), e)
