import z3, symx
from symx import SymInt, SymBool, Unsupported, sym_int

def _And(xs):
    xs = list(xs)
    return z3.And(*xs) if xs else z3.BoolVal(True)
def _Or(xs):
    xs = list(xs)
    return z3.Or(*xs) if xs else z3.BoolVal(False)
def _wrapb(e):
    e = z3.simplify(e)
    if z3.is_true(e): return True
    if z3.is_false(e): return False
    return SymBool(e)

class SymStr:
    """string of concrete length; items are z3 Int terms (code points)"""
    def __init__(self, items):
        self.items = list(items)
    @staticmethod
    def fresh(name, n, alphabet):
        items = []
        for i in range(n):
            v = z3.Int(f"{name}_{i}")
            symx.space().solver.add(_Or([v == ord(c) for c in alphabet]))
            items.append(v)
        return SymStr(items)
    def _norm(self):
        # collapse to plain str when fully concrete
        out = []
        for it in self.items:
            it = z3.simplify(it)
            if z3.is_int_value(it): out.append(chr(it.as_long()))
            else: return self
        return "".join(out)
    def __len__(self): return len(self.items)
    def __getitem__(self, k):
        if isinstance(k, slice): return SymStr(self.items[k])._norm()
        return SymStr([self.items[k]])._norm()
    def _items_of(self, o):
        if isinstance(o, SymStr): return o.items
        if isinstance(o, str): return [z3.IntVal(ord(c)) for c in o]
        return None
    def __eq__(self, o):
        oi = self._items_of(o)
        if oi is None: return False
        if len(oi) != len(self.items): return False
        return _wrapb(_And(a == b for a, b in zip(self.items, oi)))
    def __ne__(self, o):
        r = self.__eq__(o)
        return (not r) if isinstance(r, bool) else ~r
    def __hash__(self): raise Unsupported("hash(SymStr)")
    def _match_at(self, pos, oi):
        return _And(self.items[pos + j] == oi[j] for j in range(len(oi)))
    def __contains__(self, sub):
        oi = self._items_of(sub)
        n = len(self.items) - len(oi)
        if n < 0: return False
        return bool(_wrapb(_Or(self._match_at(p, oi) for p in range(n + 1))))
    def startswith(self, p):
        oi = self._items_of(p)
        if len(oi) > len(self.items): return False
        return _wrapb(self._match_at(0, oi))
    def endswith(self, p):
        oi = self._items_of(p)
        if len(oi) > len(self.items): return False
        return _wrapb(self._match_at(len(self.items) - len(oi), oi))
    def count(self, ch):
        assert len(ch) == 1
        return SymInt(z3.simplify(z3.Sum([z3.If(it == ord(ch), 1, 0) for it in self.items]) if self.items else z3.IntVal(0)))
    def split(self, sep=None):
        assert sep is not None and len(sep) == 1
        parts, cur = [], []
        for it in self.items:
            if bool(_wrapb(it == ord(sep))):
                parts.append(SymStr(cur)._norm()); cur = []
            else:
                cur.append(it)
        parts.append(SymStr(cur)._norm())
        return parts
    def isidentifier(self):
        if not self.items: return False
        def letter(c): return z3.Or(z3.And(c >= 65, c <= 90), z3.And(c >= 97, c <= 122), c == 95)
        def digit(c): return z3.And(c >= 48, c <= 57)
        return _wrapb(z3.And(letter(self.items[0]), *[z3.Or(letter(c), digit(c)) for c in self.items[1:]]))
    def __int__(self):
        # python int(str) for ascii alphabet without whitespace: [+-]? d+ (_ d+)*
        items = list(self.items)
        if not items: raise ValueError("empty")
        sign = 1
        if bool(_wrapb(items[0] == ord("+"))): items = items[1:]
        elif bool(_wrapb(items[0] == ord("-"))): items = items[1:]; sign = -1
        if not items: raise ValueError
        val = 0; prev_us = True
        for idx, it in enumerate(items):
            if bool(_wrapb(z3.And(it >= 48, it <= 57))):
                d = None
                for dv in range(10):
                    if bool(_wrapb(it == 48 + dv)):
                        d = dv; break
                val = val * 10 + d; prev_us = False
            elif bool(_wrapb(it == 95)):
                if prev_us or idx == len(items) - 1: raise ValueError
                prev_us = True
            else:
                raise ValueError
        return sign * val
    def __format__(self, spec): return "<symstr>"
    def __repr__(self): return "<symstr>"
    __str__ = __repr__
