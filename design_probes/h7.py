import time, z3, sys
import symx
from symx import SymInt, SymBool, sym_int, sym_bool, choose, explore
from symstr import SymStr
from typing import Any
from jaxtyping import _array_types as at

ALPH = "#*_?=ab10+.,("
N = int(sys.argv[1]) if len(sys.argv) > 1 else 0
class Top(str):
    def __new__(cls, toks):
        o = super().__new__(cls, "\0poison\0"); o.toks = toks; return o
    def split(self, sep=None): return list(self.toks)
    def __format__(self, spec): return "<top>"

outcomes = {}
def harness():
    n = choose("len", N + 1)
    tok = SymStr.fresh("t", n, ALPH)
    try:
        out = at._make_array_cached.__wrapped__(Any, Top([tok] if n else []), at._any_dtype, "Shaped")
        res = "ok:" + (type(out[3][0]).__name__ if out[3] else "empty")
    except ValueError as e:
        res = "VE:" + str(e)[:25]
    outcomes[res] = outcomes.get(res, 0) + 1
    return []
viol, st = explore(harness)
print(st); 
for k, v in sorted(outcomes.items()): print(v, k)
