"""Probe: real isinstance() path of jaxtyping under symx with symbolic shapes + memo."""
import itertools, sys, time
import z3
import numpy as np
import symx
from symx import SymInt, SymBool, sym_int, sym_bool, choose, explore
import jaxtyping
from jaxtyping import Float, jaxtyped, AnnotationError
from jaxtyping import _storage, _array_types as at


class FakeArray:
    def __init__(self, shape, dtype="float32"):
        self.shape = shape
        self.dtype = dtype


# ---- stub for np.broadcast_shapes (documented contract), symbolic-capable
def broadcast_shapes_stub(*shapes):
    n = max(len(s) for s in shapes)
    out = []
    for k in range(1, n + 1):
        cur = 1
        for s in shapes:
            if k <= len(s):
                d = s[-k]
                if d == 1:
                    continue
                if cur == 1:
                    cur = d
                elif cur != d:
                    raise ValueError("shape mismatch")
        out.append(cur)
    return tuple(reversed(out))


# ---- reference parser (independent, small): token -> dict
def ref_parse(dim_str):
    dims = []
    for tok in dim_str.split():
        if tok == "...":
            dims.append(dict(kind="anonvar")); continue
        bc = var = anon = False
        while tok and tok[0] in "#*_":
            if tok[0] == "#": bc = True
            if tok[0] == "*": var = True
            if tok[0] == "_": anon = True
            tok = tok[1:]
        if anon:
            dims.append(dict(kind="anonvar" if var else "anon")); continue
        if tok.isidentifier():
            dims.append(dict(kind="namedvar" if var else "named", name=tok, bc=bc)); continue
        try:
            dims.append(dict(kind="fixed", size=int(tok), bc=bc))
        except ValueError:
            dims.append(dict(kind="expr", expr=tok, bc=bc))
    return dims


def z3_eval_expr(expr, env):
    """env: name -> (present z3 Bool, value z3 Int). returns (all_present, value)"""
    import ast
    tree = ast.parse(expr, mode="eval").body
    present = []
    def go(n):
        if isinstance(n, ast.Constant): return z3.IntVal(n.value)
        if isinstance(n, ast.Name):
            p, v = env.get(n.id, (z3.BoolVal(False), z3.IntVal(0)))
            present.append(p); return v
        if isinstance(n, ast.BinOp):
            a, b = go(n.left), go(n.right)
            if isinstance(n.op, ast.Add): return a + b
            if isinstance(n.op, ast.Sub): return a - b
            if isinstance(n.op, ast.Mult): return a * b
        raise NotImplementedError(ast.dump(n))
    v = go(tree)
    return z3.And(*present) if present else z3.BoolVal(True), v


ACC, REJ, ERR = 0, 1, 2


def spec(dims, shape, single, variadic):
    """shape: list of z3 Int (concrete rank). single: name->(present,value);
    variadic: name -> (present, bc, rank(concrete-or-None), [z3 ints]) -- prototype: variadic prev shape of concrete rank.
    returns z3 Int result code, and new single env (valid when ACC)"""
    ivar = [i for i, d in enumerate(dims) if d["kind"] in ("anonvar", "namedvar")]
    rank = len(shape)
    if not ivar:
        if rank != len(dims):
            return z3.IntVal(REJ), single, variadic
        pairs = list(zip(dims, shape)); vd = None
    else:
        i = ivar[0]
        if rank < len(dims) - 1:
            return z3.IntVal(REJ), single, variadic
        nsuf = len(dims) - i - 1
        pairs = list(zip(dims[:i], shape[:i])) + list(zip(dims[i + 1:], shape[rank - nsuf:]))
        vd = (dims[i], shape[i:rank - nsuf])
    env = dict(single)
    res = z3.IntVal(ACC)  # build from the back: fold
    steps = []
    for d, s in pairs:
        if d["kind"] == "anon":
            continue
        skip = z3.And(z3.BoolVal(d["bc"]), s == 1)
        if d["kind"] == "fixed":
            steps.append((z3.Or(skip, s == d["size"]), z3.BoolVal(False)))
        elif d["kind"] == "named":
            p, v = env.get(d["name"], (z3.BoolVal(False), z3.IntVal(0)))
            steps.append((z3.Or(skip, z3.Not(p), v == s), z3.BoolVal(False)))
            env[d["name"]] = (z3.Or(p, z3.Not(skip)), z3.If(p, v, s))
        elif d["kind"] == "expr":
            allp, val = z3_eval_expr(d["expr"], env)
            steps.append((z3.Or(skip, z3.And(allp, val == s)), z3.And(z3.Not(skip), z3.Not(allp))))
    venv = dict(variadic)
    if vd is not None and vd[0]["kind"] == "namedvar":
        d, vs = vd
        p, pbc, pshape = venv.get(d["name"], (z3.BoolVal(False), z3.BoolVal(False), None))
        if pshape is None:
            venv[d["name"]] = (z3.BoolVal(True), z3.BoolVal(d["bc"]), list(vs))
        else:
            # pshape concrete rank list of z3 ints
            n = max(len(vs), len(pshape))
            def at_(lst, k):  # k-th from the end, or None
                return lst[len(lst) - k] if k <= len(lst) else None
            compat = []; bshape = []
            for k in range(n, 0, -1):
                a, b = at_(vs, k), at_(pshape, k)
                if a is None: bshape.append(b)
                elif b is None: bshape.append(a)
                else:
                    compat.append(z3.Or(a == b, a == 1, b == 1))
                    bshape.append(z3.If(a == 1, b, a))
            compat = z3.And(*compat) if compat else z3.BoolVal(True)
            def eq(l1, l2):
                if len(l1) != len(l2): return z3.BoolVal(False)
                return z3.And(*[x == y for x, y in zip(l1, l2)]) if l1 else z3.BoolVal(True)
            newbc = z3.BoolVal(d["bc"])
            ok_prev = z3.If(pbc,
                            z3.And(compat, z3.Or(newbc, eq(bshape, list(vs)))),
                            z3.If(newbc, z3.And(compat, eq(bshape, pshape)), eq(list(vs), pshape)))
            ok = z3.Or(z3.Not(p), ok_prev)
            steps.append((ok, z3.BoolVal(False)))
    for ok, err in reversed(steps):
        res = z3.If(err, ERR, z3.If(ok, res, REJ))
    return res, env, venv


DIMSTRS = sys.argv[1:] or ["a b", "a #b 3", "#a a+1 b", "_ a a", "*v a", "a *v b", "#a *#v 2", "... a b", "a ... b"]
stats_all = []


def make_harness(dim_str, prev_v_rank):
    ann = Float[FakeArray, dim_str]
    rdims = ref_parse(dim_str)

    def harness():
        rank = choose("rank", 5)
        shape = tuple(sym_int(f"s{i}", 0) for i in range(rank))
        has_a, has_b = sym_bool("has_a"), sym_bool("has_b")
        a, b = sym_int("a", 0), sym_int("b", 0)
        single = {"a": (has_a.e, a.e), "b": (has_b.e, b.e)}
        variadic = {}
        with jaxtyped("context"):
            sm, vm, pm, am = _storage.get_shape_memo()
            if has_a: sm["a"] = a
            if has_b: sm["b"] = b
            if prev_v_rank is not None:
                pbc = sym_bool("pbc")
                pshape = tuple(sym_int(f"p{i}", 0) for i in range(prev_v_rank))
                vm["v"] = (bool(pbc), pshape)
                variadic["v"] = (z3.BoolVal(True), pbc.e, [x.e for x in pshape])
            try:
                r = isinstance(FakeArray(shape), ann)
                got = ACC if r else REJ
            except AnnotationError:
                got = ERR
            sm2 = dict(_storage.get_shape_memo()[0])
        exp, env2, venv2 = spec(rdims, [s.e for s in shape], single, variadic)
        obl = [("verdict", SymBool(exp == got))]
        if got == ACC:
            for n in ("a", "b"):
                p, v = env2[n]
                if n in sm2:
                    val = sm2[n]
                    obl.append((f"memo {n} present", SymBool(p)))
                    obl.append((f"memo {n} value", SymBool(v == symx._lift(val))))
                else:
                    obl.append((f"memo {n} absent", SymBool(z3.Not(p))))
        else:
            # rollback: memo unchanged
            for n, (hp, hv) in (("a", (has_a, a)), ("b", (has_b, b))):
                if n in sm2:
                    obl.append((f"rb {n} present", hp))
                    obl.append((f"rb {n} value", SymBool(symx._lift(sm2[n]) == hv.e)))
                else:
                    obl.append((f"rb {n} absent", ~hp))
        return obl
    return harness


at.np.broadcast_shapes = broadcast_shapes_stub  # module attribute 'np' in _array_types is numpy itself!
np.broadcast_shapes = broadcast_shapes_stub
tot = time.time()
for ds in DIMSTRS:
    for pvr in ([None] if "v" not in ds else [None, 0, 1, 2]):
        viol, st = explore(make_harness(ds, pvr))
        print(f"{ds!r:14} prev_v_rank={pvr}: paths={st['paths']} aborted={st['aborted']} solver_calls={st['solver_calls']} "
              f"solver_s={st['solver_time']:.2f} wall={st['wall']:.2f} viol={viol[:1]} {st.get('abort_reasons','')}")
print("total", time.time() - tot)
