import time, z3, sys
import numpy as np
import symx
from symx import SymInt, SymBool, sym_int, sym_bool, choose, explore
import typeguard, beartype
from jaxtyping import Float, jaxtyped, AnnotationError, TypeCheckError
from jaxtyping import _array_types as at
from h4 import FakeArray, broadcast_shapes_stub
np.broadcast_shapes = broadcast_shapes_stub

def mk(tc):
    @jaxtyped(typechecker=tc)
    def f(x: Float[FakeArray, "a b"], y: Float[FakeArray, "b #c"], r) -> Float[FakeArray, "a c"]:
        return r
    @jaxtyped(typechecker=tc)
    def g(y: Float[FakeArray, "b #c"], r, x: Float[FakeArray, "a b"]) -> Float[FakeArray, "a c"]:
        return r
    return f, g
fs = {n: mk(tc) for n, tc in (("tg", typeguard.typechecked), ("bt", beartype.beartype))}

def harness():
    shapes = []
    for k in range(3):
        rank = choose(f"rank{k}", 4)
        shapes.append(tuple(sym_int(f"s{k}_{i}", 0) for i in range(rank)))
    x, y, r = (FakeArray(s) for s in shapes)
    verdicts = {}
    for n, (f, g) in fs.items():
        for which, call in (("f", lambda: f(x, y, r)), ("g", lambda: g(y, r, x)), ("fkw", lambda: f(r=r, y=y, x=x))):
            try:
                call(); verdicts[n + which] = True
            except TypeCheckError:
                verdicts[n + which] = False
    # spec: exists a,b,c
    if len(shapes[0]) == 2 and len(shapes[1]) == 2 and len(shapes[2]) == 2:
        (x0, x1), (y0, y1), (r0, r1) = [[v.e for v in s] for s in shapes]
        c = z3.Int("c_wit")
        # exists c: (y1==1 or y1==c) and r1==c   <=> (y1==1) or y1==r1
        exp = z3.And(x1 == y0, z3.Or(y1 == 1, y1 == r1), r0 == x0)
        exp = SymBool(exp)
    else:
        exp = False
    obl = []
    for k, v in verdicts.items():
        obl.append((k, (exp == v) if isinstance(exp, SymBool) else (exp == v)))
    return obl

viol, st = explore(harness)
print(st, viol[:2])
