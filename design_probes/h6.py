import time, z3, sys
import numpy as np
import symx
from symx import SymInt, SymBool, sym_int, sym_bool, choose, explore
from jaxtyping import Float, jaxtyped, AnnotationError, TypeCheckError, PyTree
from jaxtyping import _array_types as at, _storage
from h4 import FakeArray, broadcast_shapes_stub
np.broadcast_shapes = broadcast_shapes_stub

ANN = PyTree[Float[FakeArray, "a ?b"], "T"]
def harness():
    # tree skeleton: (leaf, [leaf, leaf]) ; second tree same skeleton; third different
    shp = [tuple(sym_int(f"s{k}_{i}", 0) for i in range(2)) for k in range(6)]
    t1 = (FakeArray(shp[0]), [FakeArray(shp[1]), FakeArray(shp[2])])
    t2 = (FakeArray(shp[3]), [FakeArray(shp[4]), FakeArray(shp[5])])
    with jaxtyped("context"):
        r1 = isinstance(t1, ANN)
        b1 = dict(_storage.get_shape_memo()[0])
        r2 = isinstance(t2, ANN)
        b2 = dict(_storage.get_shape_memo()[0])
    e = lambda k, i: shp[k][i].e
    exp1 = z3.And(e(0,0) == e(1,0), e(0,0) == e(2,0))
    exp2 = z3.And(exp1, e(3,0)==e(0,0), e(4,0)==e(0,0), e(5,0)==e(0,0), e(3,1)==e(0,1), e(4,1)==e(1,1), e(5,1)==e(2,1))
    obl = [("r1", SymBool(exp1) == r1)]
    if r1:
        obl.append(("r2", SymBool(exp2) == r2))
        if not r2:
            obl.append(("rollback", len(b2) == len(b1)))
    else:
        obl.append(("rb1", len(b1) == 0))
    return obl
viol, st = explore(harness)
print(st, viol[:2])
