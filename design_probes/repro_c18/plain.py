def g(x: int): return x
