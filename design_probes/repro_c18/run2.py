import sys; sys.path.insert(0, '.')
from jaxtyping import install_import_hook
with install_import_hook(["hooked","plain"], "typeguard.typechecked"):
    import plain
print("run2 (plain IS hooked now): plain.g wrapped?", hasattr(plain.g, "__wrapped__"))
try:
    plain.g("x"); print("  -> ill-typed call accepted: STALE uninstrumented bytecode")
except Exception as e: print("  -> rejected ok", type(e).__name__)
