import sys; sys.path.insert(0, '.')
from jaxtyping import install_import_hook
with install_import_hook("hooked", "typeguard.typechecked"):
    import hooked
import plain
print("run1: plain.g wrapped?", hasattr(plain.g, "__wrapped__"), " hooked.f wrapped?", hasattr(hooked.f, "__wrapped__"))
