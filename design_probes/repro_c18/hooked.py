import plain
def f(x: int): return x
