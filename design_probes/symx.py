"""Prototype: minimal dynamic symbolic execution by operator overloading (z3)."""
import time
import z3


class PathAbort(BaseException):
    pass


class Unsupported(BaseException):
    pass


_space = None


def space():
    return _space


def _lift(x):
    if isinstance(x, SymInt):
        return x.e
    if isinstance(x, bool):
        return z3.IntVal(int(x))
    if isinstance(x, int):
        return z3.IntVal(x)
    return None


class SymBool:
    __slots__ = ("e",)

    def __init__(self, e):
        self.e = e

    def __bool__(self):
        return _space.branch(self.e)

    def __and__(self, o):
        return SymBool(z3.And(self.e, _b(o)))

    def __or__(self, o):
        return SymBool(z3.Or(self.e, _b(o)))

    def __invert__(self):
        return SymBool(z3.Not(self.e))

    def __eq__(self, o):
        return SymBool(self.e == _b(o))

    def __ne__(self, o):
        return SymBool(self.e != _b(o))

    def __hash__(self):
        raise Unsupported("hash(SymBool)")

    def __repr__(self):
        return f"<symbool {self.e}>"


def _b(o):
    if isinstance(o, SymBool):
        return o.e
    return z3.BoolVal(bool(o))


def _pyfloordiv(a, b):
    # python floor division on z3 ints
    q = a / b  # z3 div: floor for b>0, ceil for b<0
    return z3.If(b > 0, q, z3.If(a % b == 0, q, q))  # prototype: b>0 only


class SymInt:
    __slots__ = ("e",)

    def __init__(self, e):
        self.e = e

    def _bin(self, o, f):
        oe = _lift(o)
        if oe is None:
            return NotImplemented
        return SymInt(z3.simplify(f(self.e, oe)))

    def _cmp(self, o, f):
        oe = _lift(o)
        if oe is None:
            return NotImplemented
        r = z3.simplify(f(self.e, oe))
        if z3.is_true(r):
            return True
        if z3.is_false(r):
            return False
        return SymBool(r)

    def __add__(self, o): return self._bin(o, lambda a, b: a + b)
    def __radd__(self, o): return self._bin(o, lambda a, b: b + a)
    def __sub__(self, o): return self._bin(o, lambda a, b: a - b)
    def __rsub__(self, o): return self._bin(o, lambda a, b: b - a)
    def __mul__(self, o): return self._bin(o, lambda a, b: a * b)
    def __rmul__(self, o): return self._bin(o, lambda a, b: b * a)
    def __floordiv__(self, o): return self._bin(o, lambda a, b: a / b)
    def __mod__(self, o): return self._bin(o, lambda a, b: a % b)
    def __neg__(self): return SymInt(-self.e)
    def __eq__(self, o): return self._cmp(o, lambda a, b: a == b)
    def __ne__(self, o): return self._cmp(o, lambda a, b: a != b)
    def __lt__(self, o): return self._cmp(o, lambda a, b: a < b)
    def __le__(self, o): return self._cmp(o, lambda a, b: a <= b)
    def __gt__(self, o): return self._cmp(o, lambda a, b: a > b)
    def __ge__(self, o): return self._cmp(o, lambda a, b: a >= b)

    def __bool__(self):
        return _space.branch(self.e != 0)

    def __hash__(self):
        raise Unsupported("hash(SymInt)")

    def __index__(self):
        raise Unsupported("index(SymInt)")

    def __format__(self, spec):
        return f"<{self.e}>"

    def __repr__(self):
        return f"<{self.e}>"

    __str__ = __repr__


class Space:
    def __init__(self):
        self.plan = []  # list of [decision(bool), other_side_pending(bool)]
        self.stats = dict(paths=0, solver_calls=0, solver_time=0.0, aborted=0)

    def begin(self):
        self.solver = z3.Solver()
        self.pos = 0
        self.vars = {}

    def _check(self, *extra):
        t = time.time()
        r = self.solver.check(*extra)
        self.stats["solver_calls"] += 1
        self.stats["solver_time"] += time.time() - t
        if r == z3.unknown:
            raise Unsupported("solver unknown")
        return r == z3.sat

    def branch(self, e):
        e = z3.simplify(e)
        if z3.is_true(e):
            return True
        if z3.is_false(e):
            return False
        if self.pos < len(self.plan):
            d = self.plan[self.pos][0]
            self.pos += 1
            self.solver.add(e if d else z3.Not(e))
            return d
        t_ok = self._check(e)
        f_ok = self._check(z3.Not(e))
        if t_ok and f_ok:
            self.plan.append([True, True])
            self.pos += 1
            self.solver.add(e)
            return True
        if t_ok:
            self.plan.append([True, False]); self.pos += 1
            self.solver.add(e)
            return True
        if f_ok:
            self.plan.append([False, False]); self.pos += 1
            self.solver.add(z3.Not(e))
            return False
        raise PathAbort("infeasible")

    def assume(self, c):
        if isinstance(c, SymBool):
            self.solver.add(c.e)
            if not self._check():
                raise PathAbort("assume infeasible")
        elif not c:
            raise PathAbort("assume false")

    def backtrack(self):
        while self.plan and not self.plan[-1][1]:
            self.plan.pop()
        if not self.plan:
            return False
        self.plan[-1] = [False, False]
        return True


def sym_int(name, lo=None, hi=None):
    v = z3.Int(name)
    if lo is not None:
        _space.solver.add(v >= lo)
    if hi is not None:
        _space.solver.add(v <= hi)
    return SymInt(v)


def sym_bool(name):
    return SymBool(z3.Bool(name))


def choose(name, n):
    x = sym_int(name, 0, n - 1)
    for v in range(n - 1):
        if x == v:
            return v
    return n - 1


def explore(fn, max_paths=10**7):
    """fn() returns list of (label, SymBool/ bool) obligations; we check each."""
    global _space
    _space = Space()
    violations = []
    t0 = time.time()
    while True:
        _space.begin()
        try:
            obligations = fn()
            for label, cond in obligations:
                if isinstance(cond, SymBool):
                    if _space._check(z3.Not(cond.e)):
                        m = _space.solver.model()
                        violations.append((label, str(m)))
                elif not cond:
                    _space._check()
                    violations.append((label, str(_space.solver.model())))
            _space.stats["paths"] += 1
        except PathAbort:
            pass
        except Unsupported as e:
            _space.stats["aborted"] += 1
            _space.stats.setdefault("abort_reasons", set()).add(str(e))
        if violations or _space.stats["paths"] >= max_paths:
            break
        if not _space.backtrack():
            break
    _space.stats["wall"] = time.time() - t0
    return violations, _space.stats
