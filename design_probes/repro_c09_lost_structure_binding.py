import numpy as np
from typing import Union
from jaxtyping import Float, jaxtyped, PyTree, print_bindings
A=np.ndarray
U = Union[Float[A,"a 1"], Float[A,"a 2"]]
with jaxtyped("context"):
    r = isinstance((np.zeros((3,2)),), PyTree[PyTree[U],"T"])
    print("first", r)
    print_bindings()
    r2 = isinstance((np.zeros((3,2)),np.zeros((3,2))), PyTree[PyTree[U],"T"])
    print("second (should be False: T was bound to a 1-tuple)", r2)
    print_bindings()
print("--- control: without nesting")
with jaxtyped("context"):
    r = isinstance((np.zeros((3,2)),), PyTree[U,"T"])
    print("first", r)
    print_bindings()
    r2 = isinstance((np.zeros((3,2)),np.zeros((3,2))), PyTree[U,"T"])
    print("second", r2)
