# C06 probe: inject logical-thread local into jaxtyping modules via builtins.__import__
import builtins, threading, types, sys
CUR = [0]
class LogicalLocal:
    def __init__(self):
        object.__setattr__(self, "_ns", {})
    def _d(self):
        return object.__getattribute__(self, "_ns").setdefault(CUR[0], {})
    def __getattr__(self, k):
        try: return self._d()[k]
        except KeyError: raise AttributeError(k)
    def __setattr__(self, k, v): self._d()[k] = v
    def __delattr__(self, k):
        try: del self._d()[k]
        except KeyError: raise AttributeError(k)
shim = types.ModuleType("threading")
shim.__dict__.update({k: v for k, v in threading.__dict__.items()})
shim.local = LogicalLocal
_real = builtins.__import__
hits = []
def imp(name, globals=None, locals=None, fromlist=(), level=0):
    m = _real(name, globals, locals, fromlist, level)
    if name == "threading" and globals is not None and str(globals.get("__name__", "")).startswith("jaxtyping"):
        hits.append(globals["__name__"]); return shim
    return m
builtins.__import__ = imp
import jaxtyping
builtins.__import__ = _real
print("shimmed in:", hits)
from jaxtyping import _storage, jaxtyped, Float, print_bindings
print(type(_storage._shape_storage).__name__, type(_storage._treepath_storage).__name__)
from h4 import FakeArray
CUR[0] = 1
ctx1 = jaxtyped("context"); ctx1.__enter__()
print(isinstance(FakeArray((3,)), Float[FakeArray, "a"]))
CUR[0] = 2
ctx2 = jaxtyped("context"); ctx2.__enter__()
print("thread2 sees a=5 ok?", isinstance(FakeArray((5,)), Float[FakeArray, "a"]))
CUR[0] = 1
print("thread1 still a=3?", isinstance(FakeArray((3,)), Float[FakeArray, "a"]), isinstance(FakeArray((5,)), Float[FakeArray, "a"]))
