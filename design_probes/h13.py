import sys, z3, time
import symx
from symx import SymInt, SymBool, sym_int, choose, explore, Unsupported
from symstr import SymStr, _wrapb, _And
import jaxtyping
from jaxtyping import _config
import jaxtyping as jt

class SymStrS(str):
    """str subclass façade over SymStr (poison payload)"""
    _n = 0
    def __new__(cls, inner):
        SymStrS._n += 1
        o = super().__new__(cls, f"\0POISON{SymStrS._n}\0"); o.inner = inner; return o
    def __eq__(self, o):
        return self.inner == (o.inner if isinstance(o, SymStrS) else o)
    def __ne__(self, o):
        return self.inner != (o.inner if isinstance(o, SymStrS) else o)
    def __hash__(self): raise Unsupported("hash")
    def __len__(self): return len(self.inner)
    def lower(self):
        items = [z3.If(z3.And(c >= 65, c <= 90), c + 32, c) for c in self.inner.items]
        return SymStrS(SymStr(items))
    def __format__(self, spec): return "<symstr>"
    def __repr__(self): return "<symstr>"
    __str__ = __repr__
    def __getattribute__(self, name):
        if name in ("inner", "lower", "__class__", "__eq__", "__ne__", "__len__", "__hash__", "__format__", "__repr__", "__str__", "__dict__"):
            return object.__getattribute__(self, name)
        if name in ("type", "as_numpy_dtype"): raise AttributeError(name)
        raise Unsupported(f"SymStrS.{name}")

def fresh(name, n, lo=32, hi=126):
    items = []
    for i in range(n):
        v = z3.Int(f"{name}_{i}"); symx.space().solver.add(v >= lo, v <= hi); items.append(v)
    return SymStrS(SymStr(items))

# --- C19: _maybestr2bool over all ASCII strings len<=6
def h_cfg():
    n = choose("len", 7)
    s = fresh("c", n)
    try:
        r = _config._maybestr2bool(s, "err")
    except ValueError:
        r = "VE"
    low = [z3.If(z3.And(c >= 65, c <= 90), c + 32, c) for c in s.inner.items]
    def is_(word): 
        return z3.BoolVal(False) if len(word) != n else z3.And(*[a == ord(b) for a, b in zip(low, word)])
    exp_false = z3.Or(is_("0"), is_("false")); exp_true = z3.Or(is_("1"), is_("true"))
    return [("false", SymBool(exp_false) == (r is False)), ("true", SymBool(exp_true) == (r is True)),
            ("ve", SymBool(z3.Not(z3.Or(exp_false, exp_true))) == (r == "VE"))]
print("cfg", explore(h_cfg))

# --- C03 name layer: all categories, duck with str dtype
class Duck:
    def __init__(self, dtype): self.shape = (); self.dtype = dtype
cats = [n for n in dir(jt) if isinstance(getattr(jt, n, None), type) and issubclass(getattr(jt, n), jt.AbstractDtype) and n != "AbstractDtype"]
tot = dict(paths=0, wall=0.0)
for cn in cats:
    cat = getattr(jt, cn); ann = cat[Duck, "..."]
    names = None if cat.dtypes is jaxtyping._array_types._any_dtype else list(cat.dtypes)
    def h():
        n = choose("len", 21)
        s = fresh("d", n)
        r = isinstance(Duck(s), ann)
        if names is None: exp = z3.BoolVal(True)
        else:
            exp = z3.Or(*[z3.And(*[a == ord(b) for a, b in zip(s.inner.items, nm)]) if len(nm) == n else z3.BoolVal(False) for nm in names]) if names else z3.BoolVal(False)
        return [("acc", SymBool(exp) == r)]
    v, st = explore(h); tot.setdefault("aborted",0); tot["aborted"] += st["aborted"]; tot.setdefault("reasons", set()).update(st.get("abort_reasons", ())); tot["paths"] += st["paths"]; tot["wall"] += st["wall"]
    if v: print(cn, v[:1])
print("C03 name layer", len(cats), "categories", tot)
