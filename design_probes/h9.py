# C10 probe: symbolic positions through the real transformer
import ast, z3, symx
from symx import sym_int, explore, SymBool, choose
from jaxtyping._import_hook import JaxtypingTransformer, Typechecker
def harness():
    l1, c1, l2, c2 = (sym_int(n, 0) for n in ("l1","c1","l2","c2"))
    nd = choose("ndec", 3)
    decs = [ast.Name(id=f"d{i}", ctx=ast.Load(), lineno=l1, col_offset=c1+i, end_lineno=l1, end_col_offset=c1+i+1) for i in range(nd)]
    fn = ast.FunctionDef(name="f", args=ast.arguments(posonlyargs=[], args=[], kwonlyargs=[], kw_defaults=[], defaults=[]),
                         body=[ast.Pass(lineno=l2+1, col_offset=c2+4, end_lineno=l2+1, end_col_offset=c2+8)], decorator_list=decs, returns=None,
                         type_params=[], lineno=l2, col_offset=c2, end_lineno=l2+1, end_col_offset=c2+8)
    mod = ast.Module(body=[fn], type_ignores=[])
    t = JaxtypingTransformer(typechecker=Typechecker(None)).visit(mod)
    ast.fix_missing_locations(t)
    f2 = t.body[1]
    added = f2.decorator_list[-1]
    obl = [("import first", isinstance(t.body[0], ast.Import)),
           ("dec count", len(f2.decorator_list) == nd + 1),
           ("added lineno", added.lineno == l2), ("added col", added.col_offset == c2),
           ("fn lineno kept", f2.lineno == l2)]
    for sub in ast.walk(added):
        if hasattr(sub, "lineno"):
            obl.append(("sub lineno", sub.lineno == l2))
    return [(n, c) for n, c in obl]
print(explore(harness))
