"""symx: a minimal dynamic symbolic executor (proxy objects + z3, one re-execution per path).

The real jaxtyping code is *executed* on SymInt / SymBool / SymStr proxies.  The only place
a path forks is `SymBool.__bool__` (and helpers built on it).  Nothing is ever silently
realised: an operation that would need a concrete value raises `Unsupported`, which makes
the whole run inconclusive (exit 2) -- never a pass.

Exploration is a DFS over the decision sequence ("plan").  Every decision, including a
forced (one-sided) one, is recorded together with a hash of its condition so that a
re-execution that does not reproduce the same branch sequence is detected.
"""
import sys
import threading
import time
import types

import z3


class PathAbort(BaseException):
    """The current path is infeasible / assumed away.  Not an error."""


class Unsupported(BaseException):
    """The code under test applied an operation symx does not model -> inconclusive."""


class Nondeterminism(BaseException):
    """A re-execution did not reproduce the recorded decision sequence -> inconclusive."""


class StopPath(BaseException):
    """Raised by harnesses to end a path early (after its obligations were checked)."""


# ------------------------------------------------------------------------------------
# token registry: `format(sym)` yields a python expression that evaluates back to the proxy
_reg = types.ModuleType("symx_reg")
_reg.G = []
sys.modules["symx_reg"] = _reg
import re as _re

TOKEN_RE = _re.compile(r"__import__\('symx_reg'\)\.G\[(\d+)\]")


def token(obj):
    _reg.G.append(obj)
    return f"__import__('symx_reg').G[{len(_reg.G) - 1}]"


def untoken(text):
    """Evaluate a string made of tokens / python literals back into values."""
    return eval(text, {"__import__": __import__})


_space = None


def _simp(e):
    # sort_disjunctions orders arguments by AST id, which depends on the history of the z3
    # context; switched off so that re-executions produce structurally identical conditions
    return z3.simplify(e, sort_disjunctions=False)


def space():
    return _space


def _lift(x):
    if isinstance(x, SymInt):
        return x.e
    if isinstance(x, bool):
        return z3.IntVal(int(x))
    if isinstance(x, int):
        return z3.IntVal(x)
    return None


def lift(x):
    r = _lift(x)
    if r is None:
        raise TypeError(f"cannot lift {type(x)}")
    return r


def _b(o):
    if isinstance(o, SymBool):
        return o.e
    if isinstance(o, z3.BoolRef):
        return o
    return z3.BoolVal(bool(o))


def wrap_bool(e):
    e = _simp(e)
    if z3.is_true(e):
        return True
    if z3.is_false(e):
        return False
    return SymBool(e)


def wrap_int(e):
    e = _simp(e)
    if z3.is_int_value(e):
        return e.as_long()
    return SymInt(e)


class SymBool:
    __slots__ = ("e",)

    def __init__(self, e):
        self.e = e

    def __bool__(self):
        return _space.branch(self.e)

    def __and__(self, o):
        return wrap_bool(z3.And(self.e, _b(o)))

    __rand__ = __and__

    def __or__(self, o):
        return wrap_bool(z3.Or(self.e, _b(o)))

    __ror__ = __or__

    def __invert__(self):
        return wrap_bool(z3.Not(self.e))

    def __eq__(self, o):
        if not isinstance(o, (SymBool, bool, z3.BoolRef)):
            return NotImplemented
        return wrap_bool(self.e == _b(o))

    def __ne__(self, o):
        if not isinstance(o, (SymBool, bool, z3.BoolRef)):
            return NotImplemented
        return wrap_bool(self.e != _b(o))

    def __hash__(self):
        raise Unsupported("hash(SymBool)")

    def __repr__(self):
        return token(self)

    __str__ = __repr__

    def __format__(self, spec):
        return token(self)


def _pyfloordiv(a, b):
    # Python floor division on z3 ints (z3 `/` on Int is div with non-negative remainder).
    return z3.If(b > 0, a / b, (-a) / (-b))


class SymInt:
    __slots__ = ("e",)

    def __init__(self, e):
        self.e = e

    def _bin(self, o, f):
        oe = _lift(o)
        if oe is None:
            return NotImplemented
        return wrap_int(f(self.e, oe))

    def _cmp(self, o, f):
        oe = _lift(o)
        if oe is None:
            return NotImplemented
        return wrap_bool(f(self.e, oe))

    def __add__(self, o):
        return self._bin(o, lambda a, b: a + b)

    def __radd__(self, o):
        return self._bin(o, lambda a, b: b + a)

    def __sub__(self, o):
        return self._bin(o, lambda a, b: a - b)

    def __rsub__(self, o):
        return self._bin(o, lambda a, b: b - a)

    def __mul__(self, o):
        return self._bin(o, lambda a, b: a * b)

    def __rmul__(self, o):
        return self._bin(o, lambda a, b: b * a)

    def _div(self, num, den, mod):
        ne, de = _lift(num), _lift(den)
        if ne is None or de is None:
            return NotImplemented
        if wrap_bool(de == 0):  # forks when symbolic
            raise ZeroDivisionError("integer division or modulo by zero")
        q = _pyfloordiv(ne, de)
        return wrap_int(ne - de * q) if mod else wrap_int(q)

    def __floordiv__(self, o):
        return self._div(self, o, False)

    def __rfloordiv__(self, o):
        return self._div(o, self, False)

    def __mod__(self, o):
        return self._div(self, o, True)

    def __rmod__(self, o):
        return self._div(o, self, True)

    def __neg__(self):
        return wrap_int(-self.e)

    def __pos__(self):
        return self

    def __abs__(self):
        return wrap_int(z3.If(self.e >= 0, self.e, -self.e))

    def __eq__(self, o):
        r = self._cmp(o, lambda a, b: a == b)
        return False if r is NotImplemented else r

    def __ne__(self, o):
        r = self._cmp(o, lambda a, b: a != b)
        return True if r is NotImplemented else r

    def __lt__(self, o):
        return self._cmp(o, lambda a, b: a < b)

    def __le__(self, o):
        return self._cmp(o, lambda a, b: a <= b)

    def __gt__(self, o):
        return self._cmp(o, lambda a, b: a > b)

    def __ge__(self, o):
        return self._cmp(o, lambda a, b: a >= b)

    def __bool__(self):
        return _space.branch(self.e != 0)

    def __hash__(self):
        raise Unsupported("hash(SymInt)")

    def __index__(self):
        raise Unsupported("index(SymInt)")

    def __int__(self):
        raise Unsupported("int(SymInt)")

    def __float__(self):
        raise Unsupported("float(SymInt)")

    def __truediv__(self, o):
        raise Unsupported("SymInt / x")

    def __rtruediv__(self, o):
        raise Unsupported("x / SymInt")

    def __pow__(self, o):
        if isinstance(o, int) and not isinstance(o, bool) and 0 <= o <= 3:
            r = 1
            for _ in range(o):
                r = r * self
            return r
        raise Unsupported("SymInt ** x")

    def __rpow__(self, o):
        raise Unsupported("x ** SymInt")

    def __format__(self, spec):
        return token(self)

    def __repr__(self):
        return token(self)

    __str__ = __repr__


# ------------------------------------------------------------------------------------


_CVC5 = None
import os as _os
_DEBUG = bool(_os.environ.get("VERIF_DEBUG"))


def _cvc5_bin():
    global _CVC5
    if _CVC5 is None:
        import shutil
        _CVC5 = shutil.which("cvc5") or ""
    return _CVC5


def cvc5_verdict(assertions, extra, timeout_ms=4000):
    """Second opinion on 'assertions AND extra' from the cvc5 binary: 'sat' | 'unsat' | None."""
    exe = _cvc5_bin()
    if not exe:
        return None
    import os
    import subprocess
    import tempfile
    s2 = z3.Solver()
    s2.add(*assertions)
    s2.add(extra)
    text = "(set-logic ALL)\n" + s2.to_smt2()
    fd, path = tempfile.mkstemp(suffix=".smt2")
    try:
        with os.fdopen(fd, "w") as f:
            f.write(text)
        r = subprocess.run([exe, "--lang=smt2", f"--tlimit={timeout_ms}", path], capture_output=True, text=True,
                           timeout=timeout_ms / 1000 + 5)
        out = r.stdout.strip().splitlines()
        if out and out[0] in ("sat", "unsat") and "(error" not in r.stdout:
            return out[0]
        return None
    except Exception:
        return None
    finally:
        try:
            os.unlink(path)
        except OSError:
            pass


class Space:
    def __init__(self, seed=0):
        self.plan = []  # [decision, other side pending, condition hash]
        self._dbg = {}
        self.stats = dict(
            paths=0, decisions=0, solver_calls=0, solver_s=0.0, aborted=0, infeasible=0,
            obligations=0, max_depth=0,
        )
        self.abort_reasons = {}
        self.seed = seed
        import random
        self.rng = random.Random(seed * 7919 + 13)
        self.p_cross = 0.0
        self.stats["cvc5_crosschecked"] = 0
        self.stats["cvc5_inconclusive"] = 0
        self.stats["cvc5_disagreements"] = 0

    def begin(self):
        self.solver = z3.Solver()
        self.pos = 0
        self.model = None  # model of the current path condition, if known
        self.nvars = 0
        self.inputs = {}  # name -> z3 var (for model extraction)
        self.decided = {}  # AST id -> truth value already fixed on this path (sound shortcut:
        # the path condition contains that very formula or its negation)
        self._keep = []
        _reg.G.clear()

    def _check(self, *extra):
        t = time.time()
        r = self.solver.check(*extra)
        self.stats["solver_calls"] += 1
        self.stats["solver_s"] += time.time() - t
        if r == z3.unknown:
            raise Unsupported("solver unknown: " + self.solver.reason_unknown())
        return r == z3.sat

    def get_model(self):
        if self.model is None:
            if not self._check():
                raise PathAbort("path condition unsat")
            self.model = self.solver.model()
        return self.model

    def _add(self, e):
        self.solver.add(e)

    def branch(self, e):
        e = _simp(e)
        if z3.is_true(e):
            return True
        if z3.is_false(e):
            return False
        eid = e.get_id()
        if eid in self.decided:
            return self.decided[eid]
        if z3.is_not(e):
            cid = e.arg(0).get_id()
            if cid in self.decided:
                return not self.decided[cid]
        h = e.hash()
        self._keep.append(e)  # keep the AST alive so that its id is not reused on this path
        if self.pos < len(self.plan):
            d, _, ph = self.plan[self.pos]
            if ph != h:
                dbg = ""
                if _DEBUG:
                    dbg = f" now={e.sexpr()[:120]!r} recorded={self._dbg.get(self.pos)!r}"
                raise Nondeterminism(f"decision {self.pos}: condition changed between executions" + dbg)
            self.pos += 1
            self._add(e if d else z3.Not(e))
            self.model = None
            self.decided[eid] = d
            return d
        if _DEBUG:
            self._dbg[len(self.plan)] = e.sexpr()[:120]
        # new decision: the current model tells one feasible side for free
        m = self.get_model()
        side = z3.is_true(m.eval(e, model_completion=True))
        other = z3.Not(e) if side else e
        other_ok = self._check(other)
        self.stats["decisions"] += 1
        if other_ok:
            # explore True first for readability of plans; both are feasible
            self.plan.append([True, True, h])
            self.pos += 1
            self._add(e)
            if not side:
                self.model = None
            self.decided[eid] = True
            return True
        self.plan.append([side, False, h])
        self.pos += 1
        self._add(e if side else z3.Not(e))
        self.decided[eid] = side
        return side

    def assume(self, c):
        if isinstance(c, SymBool):
            c = c.e
        if isinstance(c, z3.BoolRef):
            c = _simp(c)
            if z3.is_true(c):
                return
            if z3.is_false(c):
                raise PathAbort("assume false")
            self._add(c)
            if self.model is not None and z3.is_true(self.model.eval(c, model_completion=True)):
                return
            self.model = None
            if not self._check():
                raise PathAbort("assume infeasible")
            self.model = self.solver.model()
        elif not c:
            raise PathAbort("assume false")

    def satisfiable(self, c):
        """Is PC ∧ c satisfiable?  Returns a model or None."""
        if isinstance(c, SymBool):
            c = c.e
        if not isinstance(c, z3.BoolRef):
            if c:
                return self.get_model()
            return None
        c = _simp(c)
        if z3.is_false(c):
            return None
        sat = self._check(c)
        if self.p_cross and self.rng.random() < self.p_cross:
            other = cvc5_verdict(self.solver.assertions(), c)
            if other is None:
                self.stats["cvc5_inconclusive"] += 1
            else:
                self.stats["cvc5_crosschecked"] += 1
                if (other == "sat") != sat:
                    self.stats["cvc5_disagreements"] = self.stats.get("cvc5_disagreements", 0) + 1
                    if _os.environ.get("VERIF_CVC5_STRICT"):
                        raise Nondeterminism(f"cvc5 disagrees with z3 on an obligation query (z3: {'sat' if sat else 'unsat'}, cvc5: {other})")
        if sat:
            return self.solver.model()
        return None

    def backtrack(self):
        while self.plan and not self.plan[-1][1]:
            self.plan.pop()
        if not self.plan:
            return False
        self.plan[-1] = [False, False, self.plan[-1][2]]
        return True

    def fresh_int(self, name, lo=None, hi=None):
        v = z3.Int(name)
        self.inputs[name] = v
        if lo is not None:
            self._add(v >= lo)
        if hi is not None:
            self._add(v <= hi)
        self.model = None
        return SymInt(v)

    def fresh_bool(self, name):
        v = z3.Bool(name)
        self.inputs[name] = v
        return SymBool(v)


def sym_int(name, lo=None, hi=None):
    return _space.fresh_int(name, lo, hi)


def sym_bool(name):
    return _space.fresh_bool(name)


def choose(name, n):
    """A selector: symbolic int in 0..n-1, branched on; returns a concrete int."""
    if n <= 1:
        return 0
    x = sym_int(name, 0, n - 1)
    for v in range(n - 1):
        if x == v:
            return v
    return n - 1


def assume(c):
    _space.assume(c)


def model_values(model, inputs):
    out = {}
    for name, v in inputs.items():
        val = model.eval(v, model_completion=True)
        if z3.is_int_value(val):
            out[name] = val.as_long()
        else:
            out[name] = z3.is_true(val)
    return out


class Ctx:
    """Per-path context handed to harnesses."""

    def __init__(self, sp, on_violation):
        self.sp = sp
        self.on_violation = on_violation
        self.labels = set()
        self.observation = None
        self.witness = set()

    def check(self, label, cond, **info):
        """Obligation: `cond` must hold for every assignment satisfying the path condition."""
        self.sp.stats["obligations"] += 1
        self.labels.add(label)
        if isinstance(cond, SymBool):
            cond = cond.e
        if isinstance(cond, z3.BoolRef):
            neg = _simp(z3.Not(cond))
            if z3.is_false(neg):
                return True
            m = self.sp.satisfiable(neg)
            if m is None:
                return True
        else:
            if cond:
                return True
            m = self.sp.get_model()
        vals = model_values(m, self.sp.inputs)
        self.on_violation(label, vals, info)
        # continue under the assumption that the obligation held (exclude this region)
        self.sp.assume(cond)
        return False

    def reach(self, tag):
        self.witness.add(tag)


def _run_in_thread(fn):
    box = {}

    def target():
        try:
            box["r"] = fn()
        except BaseException as e:  # noqa
            box["e"] = e

    t = threading.Thread(target=target)
    t.start()
    t.join()
    if "e" in box:
        raise box["e"]
    return box.get("r")


def explore(harness, *, seed=0, max_paths=10**7, deadline=None, on_violation=None,
            on_path_end=None, fresh_thread=True, p_cross=0.0):
    """Run `harness(ctx)` once per feasible path.  Returns stats dict.

    on_violation(label, model_values, info) is called for each failed obligation.
    on_path_end(ctx, space) is called after each completed path (for concrete validation).
    """
    global _space
    sp = Space(seed)
    sp.p_cross = p_cross
    _space = sp
    violations = []

    def _on_violation(label, vals, info):
        violations.append((label, vals, info))
        if on_violation is not None:
            on_violation(label, vals, info)

    labels = set()
    witness = set()
    t0 = time.time()
    status = "exhausted"
    while True:
        sp.begin()
        ctx = Ctx(sp, _on_violation)
        try:
            try:
                if fresh_thread:
                    _run_in_thread(lambda: harness(ctx))
                else:
                    harness(ctx)
            except StopPath:
                pass
            # the path condition must still be satisfiable (guards against engine bugs)
            try:
                sp.get_model()
            except PathAbort:
                raise Nondeterminism("engine: path condition unsat at end of path")
            sp.stats["paths"] += 1
            sp.stats["max_depth"] = max(sp.stats["max_depth"], sp.pos)
            labels |= ctx.labels
            witness |= ctx.witness
            if on_path_end is not None:
                on_path_end(ctx, sp)
        except PathAbort:
            sp.stats["infeasible"] += 1
            # obligations evaluated before the path was cut (e.g. after a recorded violation)
            # were evaluated under a feasible path condition: they count as reached
            labels |= ctx.labels
            witness |= ctx.witness
        except (Unsupported, Nondeterminism) as e:
            sp.stats["aborted"] += 1
            k = f"{type(e).__name__}: {e}"
            sp.abort_reasons[k] = sp.abort_reasons.get(k, 0) + 1
        if sp.stats["paths"] >= max_paths:
            status = "max_paths"
            break
        if deadline is not None and time.time() > deadline:
            status = "timeout"
            if sp.backtrack():
                break
            status = "exhausted"
            break
        if not sp.backtrack():
            break
    st = dict(sp.stats)
    st["wall"] = time.time() - t0
    st["status"] = status
    st["abort_reasons"] = dict(sp.abort_reasons)
    st["labels"] = sorted(labels)
    st["witness"] = sorted(witness)
    st["violations"] = violations
    return st
