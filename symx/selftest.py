"""Engine self-tests (run in preflights): SymInt arithmetic agrees with Python's on a grid of
concrete values (floor division / modulo incl. negative operands), and a toy harness yields
the known number of paths."""
import z3

from . import core


def arithmetic_grid(lo=-7, hi=7):
    n = 0
    for a in range(lo, hi + 1):
        for b in range(lo, hi + 1):
            A, B = core.SymInt(z3.IntVal(a) + 0), core.SymInt(z3.IntVal(b) + 0)
            ops = [("add", lambda x, y: x + y), ("sub", lambda x, y: x - y), ("mul", lambda x, y: x * y),
                   ("lt", lambda x, y: x < y), ("le", lambda x, y: x <= y), ("eq", lambda x, y: x == y),
                   ("ne", lambda x, y: x != y), ("neg", lambda x, y: -x), ("abs", lambda x, y: abs(x)),
                   ("radd", lambda x, y: b + x), ("rsub", lambda x, y: b - x)]
            if b != 0:
                ops += [("floordiv", lambda x, y: x // y), ("mod", lambda x, y: x % y),
                        ("rfloordiv", lambda x, y: a // y if not isinstance(y, int) else a // y)]
            for name, f in ops:
                want = f(a, b)
                got = f(A, B)
                if isinstance(got, core.SymInt):
                    got = z3.simplify(got.e).as_long()
                elif isinstance(got, core.SymBool):
                    got = z3.is_true(z3.simplify(got.e))
                if got != want:
                    raise AssertionError(f"SymInt.{name}({a},{b}) = {got}, python says {want}")
                n += 1
    return n


def toy_paths():
    """x in 0..3, y >= 0: `if x == 2: ... elif y > x: ...` -> exactly 4 paths per x-branching"""
    def h(ctx):
        x = core.sym_int("x", 0, 3)
        y = core.sym_int("y", 0)
        if x == 2:
            ctx.check("a", y + x >= 2)
        elif y > x:
            ctx.check("b", y >= 1)
        else:
            ctx.check("c", y <= x)
    st = core.explore(h, fresh_thread=False)
    if st["paths"] != 3 or st["violations"] or st["aborted"]:
        raise AssertionError(f"toy harness: {st['paths']} paths, {st['violations']}")
    return st["paths"]
