"""SymStr: a `str` subclass of *concrete length* whose characters are z3 integer terms.

It implements exactly the `str` surface that jaxtyping uses.  Any other attribute raises
`Unsupported` (=> inconclusive run).  The underlying real string value is a poison payload
("\0SYMSTR<n>\0"); C-level code that reads the buffer directly would leak the payload into
observable results, which harnesses scan for (`poisoned`).

Only ASCII alphabets are supported (stated bound): identifier / case / whitespace
classification below is the ASCII restriction of Python's.
"""
import z3

from . import core
from .core import SymBool, SymInt, Unsupported, wrap_bool, wrap_int, _simp

_WS = (9, 10, 11, 12, 13, 28, 29, 30, 31, 32)
_counter = [0]
_hash_ok = [False]


class allow_identity_hash:
    """Within this scope hash(SymStr) is a per-object unique value (lru_cache keys)."""

    def __enter__(self):
        self.prev = _hash_ok[0]
        _hash_ok[0] = True

    def __exit__(self, *a):
        _hash_ok[0] = self.prev


def _And(xs):
    xs = list(xs)
    if not xs:
        return z3.BoolVal(True)
    return z3.And(*xs) if len(xs) > 1 else xs[0]


def _Or(xs):
    xs = list(xs)
    if not xs:
        return z3.BoolVal(False)
    return z3.Or(*xs) if len(xs) > 1 else xs[0]


_IV = {}
_ctx = z3.main_ctx()


def _t(c):
    if isinstance(c, int):
        v = _IV.get(c)
        if v is None:
            v = _IV[c] = z3.IntVal(c)
        return v
    return c


def _mk_eq(a, b):
    # z3's ExprRef.__eq__ spends most of its time coercing; both sides are Int terms here
    return z3.BoolRef(z3.Z3_mk_eq(_ctx.ref(), a.as_ast(), b.as_ast()), _ctx)


def _eqc(a, b):
    """char equality as python bool or z3 Bool"""
    if isinstance(a, int) and isinstance(b, int):
        return a == b
    return _mk_eq(_t(a), _t(b))


_memo = {}


def _memoized(tag, c, build):
    k = (tag, c.get_id())
    r = _memo.get(k)
    if r is None:
        r = _memo[k] = (build(c), c)  # keep `c` alive so that its id stays unique
    return r[0]


def _zb(x):
    return z3.BoolVal(x) if isinstance(x, bool) else x


def is_space(c):
    if isinstance(c, int):
        return c in _WS
    return _memoized("sp", c, lambda c: z3.Or(z3.And(c >= 9, c <= 13), z3.And(c >= 28, c <= 32)))


def is_letter(c):
    if isinstance(c, int):
        return (65 <= c <= 90) or (97 <= c <= 122) or c == 95
    return _memoized("le", c, lambda c: z3.Or(z3.And(c >= 65, c <= 90), z3.And(c >= 97, c <= 122), c == 95))


def is_digit(c):
    if isinstance(c, int):
        return 48 <= c <= 57
    return _memoized("di", c, lambda c: z3.And(c >= 48, c <= 57))


def _items_of(o):
    if isinstance(o, SymStr):
        return o.items
    if isinstance(o, str):
        return [ord(ch) for ch in o]
    return None


def make(items):
    """Build a string from items; collapses to a real `str` when fully concrete."""
    out = []
    for it in items:
        if not isinstance(it, int):
            it = _simp(it)
            if z3.is_int_value(it):
                it = it.as_long()
        out.append(it)
    if all(isinstance(it, int) for it in out):
        return "".join(chr(c) for c in out)
    return SymStr(out)


_fresh_cache = {}
_DOMAIN = {}   # AST id of a character variable -> sorted list of its possible codes


def fresh(name, n, alphabet=None, lo=32, hi=126):
    """A fresh symbolic string of length n over `alphabet` (a str) or the code range lo..hi."""
    sp = core.space()
    items = []
    for i in range(n):
        key = (name, i, alphabet, lo, hi)
        ent = _fresh_cache.get(key)
        if ent is None:
            v = z3.Int(f"{name}_{i}")
            if alphabet is not None:
                cons = [_Or(v == ord(c) for c in sorted(set(alphabet)))]
            else:
                cons = [v >= lo, v <= hi]
            ent = _fresh_cache[key] = (v, cons)
            _DOMAIN[v.get_id()] = sorted(set(map(ord, alphabet))) if alphabet is not None else list(range(lo, hi + 1))
        v, cons = ent
        sp.inputs[f"{name}_{i}"] = v
        for c in cons:
            sp._add(c)
        items.append(v)
    sp.model = None
    return make(items)


def concretize(s, model):
    if not isinstance(s, SymStr):
        return s
    out = []
    for it in s.items:
        if isinstance(it, int):
            out.append(chr(it))
        else:
            out.append(chr(model.eval(it, model_completion=True).as_long()))
    return "".join(out)


_ALLOWED = frozenset(
    """items __class__ __eq__ __ne__ __hash__ __len__ __getitem__ __contains__ __add__ __radd__
    startswith endswith count split rsplit strip lstrip rstrip isidentifier lower upper __int__
    __format__ __repr__ __str__ __iter__ __bool__ __dict__ __reduce_ex__ __mul__ __rmul__
    __lt__ __le__ __gt__ __ge__ __mod__ __rmod__ __init__ __new__ __getattribute__ __setattr__
    __sizeof__ __dir__ __doc__ __module__ __slots__ isdigit __index__ find __getnewargs__
    __class_getitem__ __init_subclass__ __subclasshook__ __delattr__ __weakref__ __copy__
    __deepcopy__""".split()
)


class SymStr(str):
    def __new__(cls, items):
        _counter[0] += 1
        o = super().__new__(cls, f"\0SYMSTR{_counter[0]}\0")
        o.items = list(items)
        o._h = 0x5A5A0000 + _counter[0]
        return o

    def __getattribute__(self, name):
        if name in _ALLOWED or name in ("_h", "_is", "_match_at", "_nsym", "_concretize_by_forking"):
            return object.__getattribute__(self, name)
        if name.startswith("__") and name.endswith("__"):
            # unknown dunder: behave as missing (hasattr probes), but never fall to str's
            raise AttributeError(name)
        # attribute probes made by jaxtyping on dtype objects
        if name in ("type", "as_numpy_dtype", "shape", "dtype", "name", "kind"):
            raise AttributeError(name)
        raise Unsupported(f"SymStr.{name}")

    # --- basic protocol
    def __len__(self):
        return len(self.items)

    def __bool__(self):
        return len(self.items) != 0

    def _nsym(self):
        return sum(not isinstance(it, int) for it in self.items)

    def _concretize_by_forking(self):
        """Pin every symbolic character to one value of its domain, forking over the feasible
        values in increasing order (sound: every alternative is explored on another path)."""
        out = []
        for it in self.items:
            if isinstance(it, int):
                out.append(it)
                continue
            dom = _DOMAIN.get(it.get_id()) or range(0, 128)
            for v in dom:
                if self._is(_eqc(it, v)):
                    out.append(v)
                    break
            else:
                raise core.PathAbort("no feasible character value")
        return "".join(chr(c) for c in out)

    def __hash__(self):
        # very short strings (e.g. one character used as a dict / set key by the code under test) are pinned
        # by forking, so that the hash is the real one; long ones only get an identity hash inside
        # the scope that explicitly allows it (lru_cache keys), never silently
        if len(self.items) <= 2 and core.space() is not None:
            return hash(self._concretize_by_forking())
        if _hash_ok[0]:
            return self._h
        raise Unsupported("hash(SymStr)")

    def __iter__(self):
        for it in self.items:
            yield make([it])

    def __getitem__(self, k):
        if isinstance(k, slice):
            return make(self.items[k])
        if isinstance(k, SymInt):
            raise Unsupported("SymStr[SymInt]")
        return make([self.items[k]])

    def __eq__(self, o):
        oi = _items_of(o)
        if oi is None:
            return False
        if len(oi) != len(self.items):
            return False
        return wrap_bool(_And(_zb(_eqc(a, b)) for a, b in zip(self.items, oi)))

    def __ne__(self, o):
        r = self.__eq__(o)
        return (not r) if isinstance(r, bool) else ~r

    def __lt__(self, o):
        raise Unsupported("SymStr <")

    __le__ = __gt__ = __ge__ = __lt__

    def __add__(self, o):
        oi = _items_of(o)
        if oi is None:
            return NotImplemented
        return make(self.items + list(oi))

    def __radd__(self, o):
        oi = _items_of(o)
        if oi is None:
            return NotImplemented
        return make(list(oi) + self.items)

    def __mul__(self, n):
        raise Unsupported("SymStr * n")

    __rmul__ = __mul__

    def __mod__(self, o):
        raise Unsupported("SymStr % x")

    __rmod__ = __mod__

    def __index__(self):
        raise TypeError("str is not an index")

    # --- searching
    def _match_at(self, pos, oi):
        return _And(_zb(_eqc(self.items[pos + j], oi[j])) for j in range(len(oi)))

    def __contains__(self, sub):
        oi = _items_of(sub)
        if oi is None:
            raise TypeError("'in <string>' requires string as left operand")
        n = len(self.items) - len(oi)
        if n < 0:
            return False
        return bool(wrap_bool(_Or(self._match_at(p, oi) for p in range(n + 1))))

    def find(self, sub):
        oi = _items_of(sub)
        n = len(self.items) - len(oi)
        for p in range(n + 1):
            if wrap_bool(self._match_at(p, oi)):
                return p
        return -1

    def startswith(self, p):
        if isinstance(p, tuple):
            return any(bool(self.startswith(q)) for q in p)
        oi = _items_of(p)
        if len(oi) > len(self.items):
            return False
        return wrap_bool(self._match_at(0, oi))

    def endswith(self, p):
        if isinstance(p, tuple):
            return any(bool(self.endswith(q)) for q in p)
        oi = _items_of(p)
        if len(oi) > len(self.items):
            return False
        return wrap_bool(self._match_at(len(self.items) - len(oi), oi))

    def count(self, sub):
        oi = _items_of(sub)
        if len(oi) != 1:
            raise Unsupported("SymStr.count(multi-char)")
        terms = [z3.If(_zb(_eqc(it, oi[0])), 1, 0) for it in self.items]
        return wrap_int(z3.Sum(terms)) if terms else 0

    # --- splitting / stripping (fork per symbolic character)
    def _is(self, pred_val):
        return bool(wrap_bool(_zb(pred_val)))

    def split(self, sep=None, maxsplit=-1):
        if sep is None:
            parts, cur = [], []
            for idx, it in enumerate(self.items):
                if self._is(is_space(it)):
                    if cur:
                        parts.append(make(cur))
                        cur = []
                        if maxsplit >= 0 and len(parts) >= maxsplit:
                            raise Unsupported("SymStr.split(None, maxsplit)")
                else:
                    cur.append(it)
            if cur:
                parts.append(make(cur))
            return parts
        oi = _items_of(sep)
        if len(oi) != 1:
            raise Unsupported("SymStr.split(multi-char)")
        parts, cur = [], []
        nsplit = 0
        for it in self.items:
            if (maxsplit < 0 or nsplit < maxsplit) and self._is(_eqc(it, oi[0])):
                parts.append(make(cur))
                cur = []
                nsplit += 1
            else:
                cur.append(it)
        parts.append(make(cur))
        return parts

    def rsplit(self, sep=None, maxsplit=-1):
        if sep is None:
            if maxsplit < 0:
                return self.split()
            raise Unsupported("SymStr.rsplit(None, n)")
        oi = _items_of(sep)
        if len(oi) != 1:
            raise Unsupported("SymStr.rsplit(multi-char)")
        parts, cur = [], []
        nsplit = 0
        for it in reversed(self.items):
            if (maxsplit < 0 or nsplit < maxsplit) and self._is(_eqc(it, oi[0])):
                parts.append(make(list(reversed(cur))))
                cur = []
                nsplit += 1
            else:
                cur.append(it)
        parts.append(make(list(reversed(cur))))
        return list(reversed(parts))

    def lstrip(self, chars=None):
        if chars is not None:
            raise Unsupported("SymStr.lstrip(chars)")
        i = 0
        while i < len(self.items) and self._is(is_space(self.items[i])):
            i += 1
        return make(self.items[i:])

    def rstrip(self, chars=None):
        if chars is not None:
            raise Unsupported("SymStr.rstrip(chars)")
        j = len(self.items)
        while j > 0 and self._is(is_space(self.items[j - 1])):
            j -= 1
        return make(self.items[:j])

    def strip(self, chars=None):
        if chars is not None:
            raise Unsupported("SymStr.strip(chars)")
        r = self.lstrip()
        return r.rstrip() if isinstance(r, SymStr) else r.strip()

    # --- classification
    def isidentifier(self):
        if not self.items:
            return False
        first = self.items[0]
        conds = [_zb(is_letter(first))]
        for c in self.items[1:]:
            if isinstance(c, int):
                conds.append(z3.BoolVal(is_letter(c) or is_digit(c)))
            else:
                conds.append(z3.Or(is_letter(c), is_digit(c)))
        return wrap_bool(_And(conds))

    def isdigit(self):
        if not self.items:
            return False
        return wrap_bool(_And(_zb(is_digit(c)) for c in self.items))

    def lower(self):
        out = []
        for c in self.items:
            if isinstance(c, int):
                out.append(c + 32 if 65 <= c <= 90 else c)
            else:
                out.append(z3.If(z3.And(c >= 65, c <= 90), c + 32, c))
        return make(out)

    def upper(self):
        out = []
        for c in self.items:
            if isinstance(c, int):
                out.append(c - 32 if 97 <= c <= 122 else c)
            else:
                out.append(z3.If(z3.And(c >= 97, c <= 122), c - 32, c))
        return make(out)

    def __int__(self):
        # Python's int(str) restricted to ASCII: ws* [+-]? digit+ (_ digit+)* ws*
        s = self.strip()
        if not isinstance(s, SymStr):
            return int(s)
        items = list(s.items)
        if not items:
            raise ValueError("invalid literal for int()")
        sign = 1
        if self._is(_eqc(items[0], 43)):
            items = items[1:]
        elif self._is(_eqc(items[0], 45)):
            items = items[1:]
            sign = -1
        if not items:
            raise ValueError("invalid literal for int()")
        val = 0
        prev_us = True
        for idx, it in enumerate(items):
            if self._is(is_digit(it)):
                d = None
                if isinstance(it, int):
                    d = it - 48
                else:
                    for dv in range(10):
                        if self._is(it == 48 + dv):
                            d = dv
                            break
                val = val * 10 + d
                prev_us = False
            elif self._is(_eqc(it, 95)):
                if prev_us or idx == len(items) - 1:
                    raise ValueError("invalid literal for int()")
                prev_us = True
            else:
                raise ValueError("invalid literal for int()")
        return sign * val

    # --- formatting: a token that evaluates back to this object
    def __format__(self, spec):
        return core.token(self)

    def __repr__(self):
        return core.token(self)

    __str__ = __repr__

    def __reduce_ex__(self, proto):
        raise Unsupported("pickle(SymStr)")

    def __copy__(self):
        return self

    def __deepcopy__(self, memo):
        return self


def poisoned(x):
    """Does a plain value carry a leaked SymStr payload?"""
    return isinstance(x, str) and not isinstance(x, SymStr) and "\0SYMSTR" in x
