from .core import (  # noqa: F401
    Ctx, Nondeterminism, PathAbort, Space, StopPath, SymBool, SymInt, Unsupported, TOKEN_RE,
    assume, choose, explore, lift, model_values, space, sym_bool, sym_int, token, untoken,
    wrap_bool, wrap_int,
)
from . import symstr  # noqa: F401
