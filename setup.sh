#!/bin/sh
# Build the overlay interpreter used by every check (offline, idempotent).
# /verif/.venv = venv of /venv's python + .pth to /venv's site-packages + solver wheels.
set -e
cd "$(dirname "$0")"
V=.venv
if [ ! -x $V/bin/python ] || ! $V/bin/python -c "import z3, jaxtyping" >/dev/null 2>&1; then
  rm -rf $V
  /venv/bin/python -m venv $V
  SP=$($V/bin/python -c "import sysconfig; print(sysconfig.get_paths()['purelib'])")
  echo "import site; site.addsitedir('/venv/lib/python3.12/site-packages')" > "$SP/_overlay.pth"
  PIP_NO_INDEX=1 $V/bin/python -m pip install -q --no-index --find-links /opt/veriftools/wheels z3-solver
  # optional second opinions; their absence only disables cross-checks
  PIP_NO_INDEX=1 $V/bin/python -m pip install -q --no-index --find-links /opt/veriftools/wheels cvc5 crosshair-tool >/dev/null 2>&1 || true
fi
$V/bin/python -c "import z3, jaxtyping, numpy; print('setup ok: z3', z3.get_version_string(), 'jaxtyping from', jaxtyping.__file__)"
